#!/usr/bin/env python3
"""Regenerate /verif/MANIFEST.json from sim/registry.py (single source of truth)."""
import json, os, sys
VERIF = os.path.dirname(os.path.dirname(os.path.abspath(__file__)))
sys.path.insert(0, VERIF)
from sim import registry

PY = "/venv/bin/python"
checks = []
for pid in sorted(registry.PROPERTIES):
    spec = registry.PROPERTIES[pid]
    checks.append({
        "property_id": pid,
        "quick_cmd": f"{PY} sim/check.py --property {pid} --tier quick",
        "thorough_cmd": f"{PY} sim/check.py --property {pid} --tier thorough",
        "evidence_file": f"/verif/evidence/{pid}.json",
        "replay_cmd_template": f"{PY} sim/check.py --replay {{path}}",
        "engine": spec["engine"],
        "level_claimed": {"category": spec["level"], "text": spec["level_text"], "design_ref": spec["design_ref"]},
        "level_note": spec["level_note"],
        "technique": spec["technique"],
    })
engines = {}
for pid, spec in registry.PROPERTIES.items():
    e = engines.setdefault(spec["engine"], {"name": spec["engine"], "path": f"sim/machines/{spec['machine']}.py", "serves_properties": [], "kind_free_text": registry.ENGINES[spec["engine"]]})
    e["serves_properties"].append(pid)
for e in engines.values():
    e["serves_properties"].sort()
manifest = {
    "version": 1,
    "setup_cmd": "sh tools/setup.sh",
    "hooks": {
        "guard": "KRROOD_VERIF",
        "enable": "sim/check.py sets KRROOD_VERIF=1 in its own environment before it imports krrood from /repo/src (read once at import of krrood/entity_query_language/symbolic.py); one hook: the conclusions attached to an expression node are kept in insertion order instead of a plain set, so that the order in which several conclusions of one node are applied does not depend on memory addresses",
        "baseline_off_cmd": "cd /repo && /venv/bin/python -m pytest -ra -q -p no:cacheprovider --timeout=900 --continue-on-collection-errors",
        "source_commits": ["9b037c1"],
        "add_only": True,
    },
    "engines": sorted(engines.values(), key=lambda e: e["name"]),
    "checks": checks,
    "notes": registry.NOTES,
    "not_applicable": [{"property_id": k, "reason": v} for k, v in sorted(registry.NOT_APPLICABLE.items()) if k not in registry.PROPERTIES],
}
with open(os.path.join(VERIF, "MANIFEST.json"), "w") as f:
    json.dump(manifest, f, indent=1)
print("wrote MANIFEST.json with", len(checks), "checks and", len(manifest["not_applicable"]), "not-applicable entries")
