#!/bin/sh
# thorough_all.sh [SEED] : the thorough tier of every registered check, one after the other (evidence/replays redirected)
SEED=${1:-20261002}
OUT=${MULTI_OUT:-/tmp/thorough_out}
mkdir -p $OUT
cd "$(dirname "$0")/.."
for p in ${PROPS:-C03 C10 C13 C14 C15 C16 C17 C19 C20}; do
  VERIF_SEED=$SEED VERIF_EVIDENCE_DIR=$OUT/ev VERIF_REPLAY_DIR=$OUT/replays /venv/bin/python sim/check.py --property $p --tier thorough > $OUT/$p-thorough.log 2>&1
  echo "seed=$SEED $p exit=$? $(grep -e "$p/thorough:" $OUT/$p-thorough.log | cut -c1-220)"
  grep -e "^VIOLATION" -e "^HARNESS" -e "^  C" $OUT/$p-thorough.log | head -12
done
