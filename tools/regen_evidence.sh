#!/bin/sh
# regen_evidence.sh : run every registered quick check in /verif against /repo and leave the evidence files it writes
# (run on an idle machine before committing evidence/)
cd "$(dirname "$0")/.."
for p in C03 C10 C13 C14 C15 C16 C17 C19 C20; do
  /venv/bin/python sim/check.py --property $p --tier quick > /tmp/regen_$p.log 2>&1
  echo "$p exit=$? $(grep "$p/quick:" /tmp/regen_$p.log | cut -c1-200)"
done
