#!/bin/sh
# confirm_seeded.sh PROP : for every /tmp/wt_PROP/_seeded/<name>/ confirm (clean demo passes, patch applies,
# suite still 132 passed, demo fails with the patch, demo passes again after reverting) and print one line each.
P=$1; WT=${WT_PREFIX:-/tmp/wt_}$P
cd $WT || exit 2
for d in $WT/_seeded/*/; do
  n=$(basename $d)
  git checkout -q -- src 2>/dev/null
  clean=$(cd $WT && PYTHONPATH=$WT/src:$WT timeout 300 /venv/bin/python $d/demo.py >/dev/null 2>&1; echo $?)
  if ! git apply --check $d/patch.diff 2>/dev/null; then echo "$P $n: PATCH-DOES-NOT-APPLY"; continue; fi
  git apply $d/patch.diff
  suite=$(PYTHONPATH=$WT/src timeout 900 /venv/bin/python -m pytest -q -p no:cacheprovider --deselect test/test_eql/test_rendering.py 2>&1 | tail -1)
  patched=$(cd $WT && PYTHONPATH=$WT/src:$WT timeout 300 /venv/bin/python $d/demo.py >/dev/null 2>&1; echo $?)
  git checkout -q -- src; git status --short | grep -v _seeded | grep -q . && git stash -q -u 2>/dev/null
  again=$(cd $WT && PYTHONPATH=$WT/src:$WT timeout 300 /venv/bin/python $d/demo.py >/dev/null 2>&1; echo $?)
  echo "$P $n: clean_demo_exit=$clean suite=[$suite] patched_demo_exit=$patched reverted_demo_exit=$again"
done
