#!/venv/bin/python
"""
Mutation survey (a developer tool, not a registered check): how many small syntactic changes of the anchored files
that the repository's own test suite does NOT notice are reported by the quick checks?

Stage 1  one mutant = one AST edit of one file (negated condition, removed statement, swapped comparison,
         and<->or, changed constant, removed `not`).  Each mutant is applied to a scratch copy of the repository and
         the repository's test suite is run against it (stop at first failure).  Mutants the suite kills are dropped.
Stage 2  every surviving mutant is run against the quick checks of the properties anchored in the mutated file
         (reduced run count), with KRROOD_SRC pointing at the scratch copy.
Output   JSON lines: {file, line, operator, before, after, suite: killed|survived, checks: {Cxx: exit code}, detected}

usage: mutation_survey.py OUT.jsonl [--files f1,f2] [--max-per-file N] [--seed S] [--slots K] [--runs R]
"""
import argparse
import ast
import copy
import json
import os
import random
import shutil
import subprocess
import sys
import tempfile
import time
from concurrent.futures import ThreadPoolExecutor

REPO = "/repo"
VERIF = os.path.dirname(os.path.dirname(os.path.abspath(__file__)))
PY = "/venv/bin/python"

FILES = {
    "src/krrood/entity_query_language/hashed_data.py": ["C03", "C10", "C13"],
    "src/krrood/entity_query_language/symbol_graph.py": ["C13", "C14", "C20"],
    "src/krrood/entity_query_language/conclusion_selector.py": ["C03"],
    "src/krrood/entity_query_language/utils.py": ["C10", "C03"],
    "src/krrood/entity_query_language/entity.py": ["C10", "C13"],
    "src/krrood/entity_query_language/predicate.py": ["C10", "C13"],
    "src/krrood/entity_query_language/symbolic.py": ["C03", "C10"],
    "src/krrood/ontomatic/property_descriptor/property_descriptor.py": ["C16", "C15"],
    "src/krrood/ontomatic/property_descriptor/monitored_container.py": ["C16", "C15"],
    "src/krrood/ontomatic/property_descriptor/property_descriptor_relation.py": ["C15", "C14"],
    "src/krrood/adapters/json_serializer.py": ["C19"],
    "src/krrood/class_diagrams/class_diagram.py": ["C17", "C15"],
    "src/krrood/class_diagrams/wrapped_field.py": ["C17"],
}

CMP_SWAP = {ast.Eq: ast.NotEq, ast.NotEq: ast.Eq, ast.Lt: ast.GtE, ast.GtE: ast.Lt, ast.Gt: ast.LtE, ast.LtE: ast.Gt,
            ast.Is: ast.IsNot, ast.IsNot: ast.Is, ast.In: ast.NotIn, ast.NotIn: ast.In}


def sites(tree):
    """Yield (node path id, operator name) for every mutation site."""
    for node in ast.walk(tree):
        if isinstance(node, (ast.If, ast.While)):
            yield node, "negate-condition"
        if isinstance(node, ast.IfExp):
            yield node, "negate-condition"
        if isinstance(node, ast.Compare) and len(node.ops) == 1 and type(node.ops[0]) in CMP_SWAP:
            yield node, "swap-comparison"
        if isinstance(node, ast.BoolOp):
            yield node, "and-or"
        if isinstance(node, ast.UnaryOp) and isinstance(node.op, ast.Not):
            yield node, "remove-not"
        if isinstance(node, ast.Constant) and isinstance(node.value, bool):
            yield node, "flip-bool"
        if isinstance(node, ast.Constant) and isinstance(node.value, int) and not isinstance(node.value, bool) and node.value in (0, 1):
            yield node, "zero-one"
        if isinstance(node, ast.Call) and isinstance(node.func, ast.Name) and node.func.id in ("list", "copy", "set", "tuple", "make_list", "make_set", "dict") and len(node.args) == 1 and not node.keywords:
            yield node, "unwrap-copy"  # list(x) -> x : a snapshot becomes the live object
        if isinstance(node, ast.Compare) and len(node.ops) == 1 and isinstance(node.ops[0], (ast.Is, ast.IsNot, ast.Eq, ast.NotEq)) and not (isinstance(node.comparators[0], ast.Constant) and node.comparators[0].value is None):
            yield node, "identity-equality"  # is <-> ==
        if isinstance(node, (ast.FunctionDef, ast.For, ast.While, ast.If, ast.With, ast.Try)):
            body = node.body
            for i, stmt in enumerate(body):
                if isinstance(stmt, ast.Expr) and isinstance(stmt.value, ast.Constant):
                    continue  # docstring
                if isinstance(stmt, (ast.Expr, ast.Assign, ast.AugAssign)) and len(body) > 1:
                    yield (node, i), "remove-statement"
                if isinstance(stmt, ast.Return) and stmt.value is not None and not isinstance(stmt.value, ast.Constant):
                    pass


def mutants_of(path, rng, limit):
    src = open(os.path.join(REPO, path)).read()
    tree = ast.parse(src)
    all_sites = list(sites(tree))
    idx = list(range(len(all_sites)))
    rng.shuffle(idx)
    out = []
    for k in idx:
        if len(out) >= limit:
            break
        t2 = ast.parse(src)
        s2 = list(sites(t2))
        target, op = s2[k]
        try:
            if op == "negate-condition":
                before = ast.unparse(target.test)
                target.test = ast.UnaryOp(op=ast.Not(), operand=target.test)
                line = target.lineno
            elif op == "swap-comparison":
                before = ast.unparse(target)
                target.ops = [CMP_SWAP[type(target.ops[0])]()]
                line = target.lineno
            elif op == "and-or":
                before = ast.unparse(target)
                target.op = ast.Or() if isinstance(target.op, ast.And) else ast.And()
                line = target.lineno
            elif op == "remove-not":
                before = ast.unparse(target)
                target.op = ast.UAdd()  # +x keeps the AST valid; replaced below
                line = target.lineno
                # turn `not x` into `bool(x)`
                new = ast.Call(func=ast.Name(id="bool", ctx=ast.Load()), args=[target.operand], keywords=[])
                for parent in ast.walk(t2):
                    for f, v in ast.iter_fields(parent):
                        if v is target:
                            setattr(parent, f, new)
                        elif isinstance(v, list):
                            for i, x in enumerate(v):
                                if x is target:
                                    v[i] = new
            elif op == "unwrap-copy":
                before = ast.unparse(target)
                line = target.lineno
                inner = target.args[0]
                for parent in ast.walk(t2):
                    for f, v in ast.iter_fields(parent):
                        if v is target:
                            setattr(parent, f, inner)
                        elif isinstance(v, list):
                            for i, x in enumerate(v):
                                if x is target:
                                    v[i] = inner
            elif op == "identity-equality":
                before = ast.unparse(target)
                line = target.lineno
                swap = {ast.Is: ast.Eq, ast.IsNot: ast.NotEq, ast.Eq: ast.Is, ast.NotEq: ast.IsNot}
                target.ops = [swap[type(target.ops[0])]()]
            elif op == "flip-bool":
                before = repr(target.value)
                target.value = not target.value
                line = target.lineno
            elif op == "zero-one":
                before = repr(target.value)
                target.value = 1 - target.value
                line = target.lineno
            elif op == "remove-statement":
                parent, i = target
                before = ast.unparse(parent.body[i])
                line = parent.body[i].lineno
                parent.body[i] = ast.Pass()
            else:
                continue
            ast.fix_missing_locations(t2)
            new_src = ast.unparse(t2)
        except Exception:
            continue
        out.append({"file": path, "line": line, "operator": op, "before": before[:160], "source": new_src})
    return out


def make_slot(n):
    d = tempfile.mkdtemp(prefix=f"mutslot{n}_")
    for sub in ("src", "test", "pytest.ini", "pyproject.toml"):
        s = os.path.join(REPO, sub)
        if os.path.isdir(s):
            shutil.copytree(s, os.path.join(d, sub))
        elif os.path.exists(s):
            shutil.copy(s, d)
    return d


def run_suite(slot, mutant):
    target = os.path.join(slot, mutant["file"])
    original = open(os.path.join(REPO, mutant["file"])).read()
    open(target, "w").write(mutant["source"])
    try:
        env = dict(os.environ, PYTHONPATH=os.path.join(slot, "src"), PYTHONHASHSEED="0")
        p = subprocess.run([PY, "-m", "pytest", "-x", "-q", "-p", "no:cacheprovider", "--deselect", "test/test_eql/test_rendering.py", "--timeout=300"],
                           cwd=slot, env=env, capture_output=True, text=True, timeout=900)
        tail = p.stdout.strip().splitlines()[-1] if p.stdout.strip() else ""
        return "survived" if p.returncode == 0 and " passed" in tail and "failed" not in tail and "error" not in tail else "killed"
    except subprocess.TimeoutExpired:
        return "killed"
    finally:
        open(target, "w").write(original)


def run_checks(mutant, props, runs):
    scratch = tempfile.mkdtemp(prefix="mutchk_")
    try:
        shutil.copytree(os.path.join(REPO, "src"), os.path.join(scratch, "src"))
        open(os.path.join(scratch, mutant["file"]), "w").write(mutant["source"])
        results = {}
        for prop in props:
            env = dict(os.environ, KRROOD_SRC=os.path.join(scratch, "src"), VERIF_EVIDENCE_DIR=os.path.join(scratch, "ev"), VERIF_REPLAY_DIR=os.path.join(scratch, "rp"),
                       PYTHONHASHSEED="0", VERIF_RUNS=str(runs), VERIF_MIN_S="3", VERIF_MIN_EXECS="40", VERIF_TRIAGE_S="25", VERIF_SEED="1")
            try:
                p = subprocess.run([PY, os.path.join(VERIF, "sim", "check.py"), "--property", prop, "--tier", "quick"], env=env, capture_output=True, text=True, timeout=900)
                first = next((l.strip() for l in p.stdout.splitlines() if l.startswith("  C") and ": " in l), "")
                results[prop] = {"exit": p.returncode, "first": first[:200], "anomaly": next((l[:200] for l in p.stdout.splitlines() if l.startswith("HARNESS-ANOMALY")), "")}
            except subprocess.TimeoutExpired:
                results[prop] = {"exit": "timeout"}
            if results[prop]["exit"] == 1:
                break
        return results
    finally:
        shutil.rmtree(scratch, ignore_errors=True)


def main():
    ap = argparse.ArgumentParser()
    ap.add_argument("out")
    ap.add_argument("--files")
    ap.add_argument("--max-per-file", type=int, default=25)
    ap.add_argument("--seed", type=int, default=7)
    ap.add_argument("--slots", type=int, default=6)
    ap.add_argument("--runs", type=int, default=2500)
    ap.add_argument("--operators", help="comma separated operator names to keep")
    args = ap.parse_args()
    rng = random.Random(args.seed)
    files = [f for f in FILES if not args.files or any(x in f for x in args.files.split(","))]
    mutants = []
    for f in files:
        limit = args.max_per_file * (3 if f.endswith("symbolic.py") else 1)
        mutants += mutants_of(f, rng, limit)
    if args.operators:
        keep = set(args.operators.split(","))
        mutants = [m for m in mutants if m["operator"] in keep]
    print(f"{len(mutants)} mutants", flush=True)
    slots = [make_slot(i) for i in range(args.slots)]
    free = list(slots)
    import threading

    lock = threading.Lock()

    def stage1(m):
        with lock:
            slot = free.pop()
        try:
            m["suite"] = run_suite(slot, m)
        finally:
            with lock:
                free.append(slot)
        return m

    t0 = time.time()
    with ThreadPoolExecutor(max_workers=args.slots) as ex:
        mutants = list(ex.map(stage1, mutants))
    for s in slots:
        shutil.rmtree(s, ignore_errors=True)
    survivors = [m for m in mutants if m["suite"] == "survived"]
    print(f"stage 1: {len(survivors)} of {len(mutants)} mutants survive the test suite ({time.time() - t0:.0f}s)", flush=True)
    with open(args.out, "w") as f:
        for m in mutants:
            if m["suite"] == "killed":
                f.write(json.dumps({k: v for k, v in m.items() if k != "source"}) + "\n")
        for n, m in enumerate(survivors):
            m["checks"] = run_checks(m, FILES[m["file"]], args.runs)
            m["detected"] = any(r.get("exit") == 1 for r in m["checks"].values())
            rec = {k: v for k, v in m.items() if k != "source"}
            f.write(json.dumps(rec) + "\n")
            f.flush()
            print(f"[{n + 1}/{len(survivors)}] {'DETECTED' if m['detected'] else 'survived'} {m['file'].split('/')[-1]}:{m['line']} {m['operator']} {m['before'][:70]!r} {[(p, r.get('exit')) for p, r in m['checks'].items()]}", flush=True)
    det = sum(1 for m in survivors if m["detected"])
    print(f"stage 2: {det} of {len(survivors)} suite-surviving mutants are reported by the quick checks")


if __name__ == "__main__":
    main()
