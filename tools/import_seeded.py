#!/usr/bin/env python3
"""
import_seeded.py ROUND WT_PREFIX PROP NAME "needs to manifest" : copy one confirmed seeded change from a
sub-agent's scratch worktree (<WT_PREFIX><PROP>/_seeded/<NAME>/) to /verif/seeded/<PROP>-<NAME>/ and write its
meta.json.  The confirmation line is taken from /tmp/confirm<ROUND>_<PROP>.txt (output of confirm_seeded.sh).
"""
import json
import os
import shutil
import subprocess
import sys

rnd, prefix, prop, name, needs = sys.argv[1:6]
src = f"{prefix}{prop}/_seeded/{name}"
dst = f"/verif/seeded/{prop}-{name}"
os.makedirs(dst, exist_ok=True)
files = []
for f in sorted(os.listdir(src)):
    p = os.path.join(src, f)
    if os.path.isfile(p) and os.path.getsize(p) < 200_000 and not f.endswith(".pyc"):
        shutil.copy(p, os.path.join(dst, f))
        files.append(f)
line = ""
for l in open(f"/tmp/confirm{rnd}_{prop}.txt"):
    if l.startswith(f"{prop} {name}:"):
        line = l.split(":", 1)[1].strip()
assert "patched_demo_exit=1" in line and "reverted_demo_exit=0" in line and "clean_demo_exit=0" in line and "132 passed" in line, line
head = subprocess.run(["git", "-C", "/repo", "log", "--format=%h", "-1"], capture_output=True, text=True).stdout.strip()
meta = {
    "id": f"{prop}-{name}",
    "property": prop,
    "round": int(rnd),
    "base_commit": f"{head} (/repo HEAD)",
    "origin": "fresh sub-agent given the property text, its own scratch worktree and the list of situations earlier seeded changes needed",
    "needs_to_manifest": needs,
    "confirmed_by_me": {"command": f"WT_PREFIX={prefix} tools/confirm_seeded.sh {prop}", "result": line},
    "files": files,
}
json.dump(meta, open(os.path.join(dst, "meta.json"), "w"), indent=1)
print(dst, files)
