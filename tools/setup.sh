#!/bin/sh
# Offline setup: nothing is built or fetched; verify that the interpreter and krrood's dependencies are present.
set -e
cd "$(dirname "$0")/.."
PYTHONHASHSEED=0 /venv/bin/python - <<'PY'
import sys
sys.path.insert(0, "/repo/src")
import warnings
warnings.filterwarnings("ignore")
import rustworkx, sqlalchemy, krrood
from krrood.entity_query_language.entity import let
print("setup ok: python", sys.version.split()[0], "krrood from", krrood.__file__)
PY
mkdir -p evidence replays
