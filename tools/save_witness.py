#!/usr/bin/env python3
"""save_witness.py PROP INDEX NAME MACHINE [TREE]: turn /tmp/min_<PROP>_<INDEX>.json into findings/<NAME>.json"""
import json, sys
prop, idx, name, machine = sys.argv[1:5]
tree = sys.argv[5] if len(sys.argv) > 5 else ""
sc = json.load(open(f"/tmp/min_{prop}_{idx}.json"))
json.dump({"property": prop, "machine": machine, "verif_seed": 20261002, "run_index": int(idx), "repo_tree": tree, "scenario": sc},
          open(f"/verif/findings/{name}.json", "w"), indent=1, sort_keys=True)
print("saved", name)
