#!/bin/sh
# multi_seed.sh TIER SEED... : run every registered check with each seed (evidence/replays redirected to a scratch dir)
# and print one summary line per (property, seed).  A developer tool - not a registered check.
TIER=$1; shift
OUT=${MULTI_OUT:-/tmp/multi_seed_out}
mkdir -p $OUT
cd "$(dirname "$0")/.."
for seed in "$@"; do
  for p in ${PROPS:-C03 C10 C13 C14 C15 C16 C17 C19 C20}; do
    VERIF_SEED=$seed VERIF_EVIDENCE_DIR=$OUT/ev_$seed VERIF_REPLAY_DIR=$OUT/replays /venv/bin/python sim/check.py --property $p --tier $TIER > $OUT/$p-$seed.log 2>&1
    echo "seed=$seed $p exit=$? $(grep -e "$p/$TIER:" $OUT/$p-$seed.log | cut -c1-200) $(grep -c '^VIOLATION' $OUT/$p-$seed.log) violation-lines"
  done
done
