#!/venv/bin/python
"""
Sensitivity self-test: every seeded change under /verif/seeded/<id>/ (patch.diff + meta.json) and every
mutant under sim/selftest/mutants/ must make the quick check of its property report a VIOLATION.

Each patch is applied to a scratch copy of /repo/src under /tmp (removed afterwards); the check runs with
KRROOD_SRC pointing at the copy and with its evidence / replay output redirected into the scratch
directory, so the committed evidence of the real tree is never touched.

usage: sensitivity.py [--only NAME_SUBSTRING] [--jobs N] [--tier quick]
exit 0 when every change is detected, 1 otherwise.
"""
import argparse
import json
import os
import shutil
import subprocess
import sys
import tempfile
import time
from concurrent.futures import ThreadPoolExecutor

VERIF = os.path.dirname(os.path.dirname(os.path.dirname(os.path.abspath(__file__))))
REPO = os.environ.get("KRROOD_REPO", "/repo")


def cases():
    out = []
    seeded = os.path.join(VERIF, "seeded")
    if os.path.isdir(seeded):
        for name in sorted(os.listdir(seeded)):
            d = os.path.join(seeded, name)
            meta_path = os.path.join(d, "meta.json")
            if os.path.exists(meta_path) and os.path.exists(os.path.join(d, "patch.diff")):
                meta = json.load(open(meta_path))
                out.append({"name": name, "patch": os.path.join(d, "patch.diff"), "properties": meta.get("detect_with", [meta["property"]]), "expect": meta.get("expect", "detected")})
    mutants = os.path.join(VERIF, "sim", "selftest", "mutants")
    if os.path.isdir(mutants):
        for name in sorted(os.listdir(mutants)):
            if name.endswith(".patch"):
                prop = name.split("-")[0]
                out.append({"name": "mutant:" + name[:-6], "patch": os.path.join(mutants, name), "properties": [prop], "expect": "detected"})
    return out


def run_case(case, tier, runs):
    scratch = tempfile.mkdtemp(prefix="sens_")
    try:
        shutil.copytree(os.path.join(REPO, "src"), os.path.join(scratch, "src"))
        ap = subprocess.run(["patch", "-p1", "-s", "-d", scratch, "-i", case["patch"]], capture_output=True, text=True)
        if ap.returncode != 0:
            return dict(case, outcome="patch-does-not-apply", detail=ap.stdout[-300:] + ap.stderr[-300:])
        results = []
        for prop in case["properties"]:
            env = dict(os.environ, KRROOD_SRC=os.path.join(scratch, "src"), VERIF_EVIDENCE_DIR=os.path.join(scratch, "evidence"),
                       VERIF_REPLAY_DIR=os.path.join(scratch, "replays"), PYTHONHASHSEED="0", VERIF_MIN_S="8", VERIF_TRIAGE_S="40")
            if runs:
                env["VERIF_RUNS"] = str(runs)
            t0 = time.time()
            p = subprocess.run([sys.executable, os.path.join(VERIF, "sim", "check.py"), "--property", prop, "--tier", tier], env=env, capture_output=True, text=True, timeout=1800)
            lines = [l for l in p.stdout.splitlines() if l.startswith("VIOLATION")]
            first = next((l.strip() for l in p.stdout.splitlines() if l.startswith("  C") and ": " in l), "")
            results.append({"property": prop, "exit": p.returncode, "violations": len(lines), "first": first[:300], "wall_s": round(time.time() - t0, 1),
                            "anomaly": next((l[:300] for l in p.stdout.splitlines() if l.startswith("HARNESS-ANOMALY")), "")})
        detected = any(r["exit"] == 1 and r["violations"] > 0 for r in results)
        return dict(case, outcome="detected" if detected else "MISSED", results=results)
    finally:
        shutil.rmtree(scratch, ignore_errors=True)


def main():
    ap = argparse.ArgumentParser()
    ap.add_argument("--only")
    ap.add_argument("--jobs", type=int, default=2)
    ap.add_argument("--tier", default="quick")
    ap.add_argument("--runs", type=int, default=0)
    ap.add_argument("--json")
    args = ap.parse_args()
    wanted = [w for w in (args.only or "").split(",") if w]
    todo = [c for c in cases() if not wanted or any(w in c["name"] for w in wanted)]
    with ThreadPoolExecutor(max_workers=args.jobs) as ex:
        done = list(ex.map(lambda c: run_case(c, args.tier, args.runs), todo))
    bad = 0
    for r in done:
        ok = r["outcome"] == r.get("expect", "detected") or (r["outcome"] == "MISSED" and r.get("expect") == "missed")
        bad += 0 if ok else 1
        print(f"{r['outcome']:9s} {r['name']}" + ("" if ok else "   <-- unexpected"))
        for x in r.get("results", []):
            print(f"            {x['property']}: exit {x['exit']}, {x['violations']} violation lines, {x['wall_s']}s  {x['first']} {x['anomaly']}")
        if "detail" in r:
            print("            " + r["detail"])
    if args.json:
        json.dump(done, open(args.json, "w"), indent=1)
    print(f"{len(done) - bad}/{len(done)} as expected")
    return 1 if bad else 0


if __name__ == "__main__":
    sys.exit(main())
