#!/venv/bin/python
"""
Determinism self-test: the event digest of a run must be a function of
(VERIF_SEED, property, run index) and the code alone.

For N run indices of a property: (a) the batch is executed twice with 16 workers,
(b) once with 1 worker, (c) in fresh interpreters under PYTHONHASHSEED=1 and =2;
all digests (and the rules fired) must be equal.  Exit 0 when they are, 3 otherwise.

usage: determinism.py PROPERTY [N]
"""
import json
import os
import subprocess
import sys

VERIF = os.path.dirname(os.path.dirname(os.path.dirname(os.path.abspath(__file__))))


def inner(prop, n, workers):
    os.environ.setdefault("KRROOD_VERIF", "1")
    sys.path.insert(0, VERIF)
    sys.path.insert(0, os.environ.get("KRROOD_SRC", "/repo/src"))
    import importlib
    import warnings

    warnings.filterwarnings("ignore")
    from sim import kernel, procs, registry

    spec = registry.PROPERTIES[prop]
    machine = importlib.import_module("sim.machines." + spec["machine"])
    cfg = dict(spec.get("cfg", {}), property=prop, tier="quick", _collect_digests=True)
    seed = int(os.environ.get("VERIF_SEED", kernel.DEFAULT_SEED))
    batch = procs.run_batch(machine, prop, seed, cfg, n, workers)
    if batch["harness_errors"] or batch["worker_errors"]:
        print(json.dumps({"error": str(batch["harness_errors"][:1]) + str(batch["worker_errors"][:1])}))
    else:
        print(json.dumps(batch["digests"], sort_keys=True))


def outer(prop, n):
    configs = [("hs0-w16-a", "0", 16), ("hs0-w16-b", "0", 16), ("hs0-w1", "0", 1), ("hs1-w16", "1", 16), ("hs2-w5", "2", 5)]
    results = {}
    for name, hashseed, workers in configs:
        env = dict(os.environ, PYTHONHASHSEED=hashseed)
        out = subprocess.run([sys.executable, __file__, "--inner", prop, str(n), str(workers)], env=env, capture_output=True, text=True, timeout=3600)
        line = out.stdout.strip().splitlines()[-1] if out.stdout.strip() else ""
        try:
            results[name] = json.loads(line)
        except ValueError:
            print(f"{name}: no result\n{out.stdout[-2000:]}\n{out.stderr[-2000:]}")
            return 3
        if "error" in results[name]:
            print(f"{name}: harness error {results[name]['error'][:3000]}")
            return 3
    base = results[configs[0][0]]
    bad = 0
    for name, _, _ in configs[1:]:
        diff = [k for k in base if results[name].get(k) != base[k]] + [k for k in results[name] if k not in base]
        print(f"{prop}: {name} vs {configs[0][0]}: {len(base)} runs, {len(diff)} differing digests" + (f", e.g. run {diff[0]}: {base.get(diff[0])} vs {results[name].get(diff[0])}" if diff else ""))
        bad += len(diff)
    return 0 if bad == 0 and len(base) == n else 3


if __name__ == "__main__":
    if sys.argv[1] == "--inner":
        inner(sys.argv[2], int(sys.argv[3]), int(sys.argv[4]))
    else:
        sys.exit(outer(sys.argv[1], int(sys.argv[2]) if len(sys.argv) > 2 else 300))
