"""
Process model: one forked child per run, forked from a template process that has
imported krrood and the harness worlds and created nothing else.

krrood keeps process-wide state (SymbolGraph singleton, expression id counter,
expression registry, the global RWXNode graph, lru_caches).  Forking one child per
run from a pristine template makes a run's outcome independent of its position in
the batch and makes replay in a fresh process the same execution.
"""
from __future__ import annotations

import gc
import json
import os
import select
import signal
import sys
import time
import traceback
from typing import Any, Callable, Dict, List, Optional

from . import kernel

CHILD_WALL_CAP = float(os.environ.get("VERIF_CHILD_WALL_CAP", "20"))


def _write_all(fd: int, data: bytes):
    view = memoryview(data)
    while view:
        n = os.write(fd, view)
        view = view[n:]


def _read_all(fd: int, deadline: Optional[float]) -> Optional[bytes]:
    """Read until EOF; None when the deadline passes first."""
    chunks = []
    while True:
        timeout = None if deadline is None else max(0.0, deadline - time.monotonic())
        ready, _, _ = select.select([fd], [], [], timeout)
        if not ready:
            return None
        chunk = os.read(fd, 1 << 16)
        if not chunk:
            return b"".join(chunks)
        chunks.append(chunk)


def in_child(fn: Callable[[Any], Any], arg: Any, wall_cap: float = CHILD_WALL_CAP) -> Dict:
    """
    Run fn(arg) in a forked child with the cyclic GC disabled.  Returns fn's JSON
    result, or {"timeout": True} / {"harness_error": text}.
    """
    r, w = os.pipe()
    sys.stdout.flush()
    sys.stderr.flush()
    pid = os.fork()
    if pid == 0:
        code = 0
        try:
            os.close(r)
            gc.disable()
            try:
                res = fn(arg)
                data = json.dumps(res, default=kernel._default).encode()
            except BaseException:
                data = json.dumps({"harness_error": traceback.format_exc()}).encode()
            _write_all(w, data)
        except BaseException:
            code = 70
        finally:
            os._exit(code)
    os.close(w)
    try:
        data = _read_all(r, time.monotonic() + wall_cap)
    finally:
        os.close(r)
    if data is None:
        try:
            os.kill(pid, signal.SIGKILL)
        except ProcessLookupError:
            pass
        os.waitpid(pid, 0)
        return {"timeout": True}
    _, status = os.waitpid(pid, 0)
    if not data:
        return {"harness_error": f"child died without output, wait status {status}"}
    try:
        return json.loads(data)
    except ValueError:
        return {"harness_error": "child output is not JSON: %r" % data[:200]}


def _child_run(machine, verif_seed: int, prop: str, index: int, cfg: Dict):
    def body(_):
        rng = kernel.run_rng(verif_seed, prop, index)
        scenario = machine.generate(rng, dict(cfg, _index=index))
        return machine.execute(scenario)

    return body


def _worker(machine, prop, verif_seed, cfg, indices, deadline, out_fd, max_keep, open_entries=None):
    agg = {
        "runs": 0,
        "counters": {},
        "distinct": set(),
        "failures": [],
        "timeouts": [],
        "harness_errors": [],
        "samples": [],
        "last_index": None,
        "cut_short": False,
        "failed_runs": 0,
        "digests": {},
        "suppressed": {},
    }
    collect = bool(cfg.get("_collect_digests"))
    for index in indices:
        if deadline is not None and time.monotonic() > deadline:
            agg["cut_short"] = True
            break
        res = in_child(_child_run(machine, verif_seed, prop, index, cfg), None)
        agg["runs"] += 1
        agg["last_index"] = index
        if res.get("timeout"):
            agg["timeouts"].append(index)
            continue
        if "harness_error" in res:
            if len(agg["harness_errors"]) < 5:
                agg["harness_errors"].append({"index": index, "error": res["harness_error"]})
            else:
                agg["harness_errors"].append({"index": index})
            continue
        for k, v in res.get("counters", {}).items():
            agg["counters"][k] = agg["counters"].get(k, 0) + v
        if collect:
            agg["digests"][str(index)] = [res.get("digest"), sorted(v["rule"] for v in res.get("verdicts", []))]
        if res.get("nontrivial"):
            agg["distinct"].add(res.get("shape"))
        if res.get("verdicts"):
            agg["failed_runs"] += 1
            verdicts = res["verdicts"]
            if open_entries:
                # attribution to open known findings happens here, in parallel, with children of this same worker
                from . import triage

                scenario = None
                remaining = []
                for v in verdicts:
                    if not any(triage.matches(e, v) for e in open_entries):
                        remaining.append(v)
                        continue
                    if scenario is None:
                        scenario = machine.generate(kernel.run_rng(verif_seed, prop, index), dict(cfg, _index=index))
                    entry = triage.attribute(machine, scenario, v, open_entries)
                    if entry is None:
                        remaining.append(v)
                    else:
                        agg["suppressed"][entry["id"]] = agg["suppressed"].get(entry["id"], 0) + 1
                verdicts = remaining
            if verdicts and len(agg["failures"]) < max_keep:
                agg["failures"].append(
                    {"index": index, "verdicts": verdicts, "digest": res.get("digest")}
                )
        if len(agg["samples"]) < 1 and res.get("nontrivial"):
            agg["samples"].append(index)
    agg["distinct"] = sorted(agg["distinct"])
    _write_all(out_fd, json.dumps(agg).encode())


def run_batch(
    machine,
    prop: str,
    verif_seed: int,
    cfg: Dict,
    n_runs: int,
    workers: int,
    wall_budget: Optional[float] = None,
    first_index: int = 0,
    max_keep: int = 40,
    open_entries=None,
) -> Dict:
    """
    Execute run indices first_index .. first_index+n_runs-1, striped over `workers`
    worker processes by index (so the set of executions does not depend on the
    worker count unless the wall budget cuts the batch short).
    """
    t0 = time.monotonic()
    deadline = None if wall_budget is None else t0 + wall_budget
    procs = []
    sys.stdout.flush()
    sys.stderr.flush()
    for wid in range(workers):
        r, w = os.pipe()
        pid = os.fork()
        if pid == 0:
            code = 0
            try:
                os.close(r)
                for _, fd in procs:
                    os.close(fd)
                indices = range(first_index + wid, first_index + n_runs, workers)
                _worker(machine, prop, verif_seed, cfg, indices, deadline, w, max_keep, open_entries)
            except BaseException:
                try:
                    _write_all(w, json.dumps({"worker_error": traceback.format_exc()}).encode())
                except BaseException:
                    pass
                code = 71
            finally:
                os._exit(code)
        os.close(w)
        procs.append((pid, r))
    buffers = {fd: [] for _, fd in procs}
    open_fds = set(buffers)
    while open_fds:
        ready, _, _ = select.select(list(open_fds), [], [], 1.0)
        for fd in ready:
            chunk = os.read(fd, 1 << 16)
            if chunk:
                buffers[fd].append(chunk)
            else:
                open_fds.discard(fd)
    total = {
        "runs": 0,
        "counters": {},
        "distinct": set(),
        "failures": [],
        "timeouts": [],
        "harness_errors": [],
        "samples": [],
        "cut_short": False,
        "failed_runs": 0,
        "worker_errors": [],
        "digests": {},
        "suppressed": {},
    }
    for pid, fd in procs:
        os.close(fd)
        _, status = os.waitpid(pid, 0)
        raw = b"".join(buffers[fd])
        try:
            agg = json.loads(raw)
        except ValueError:
            total["worker_errors"].append(f"worker {pid} status {status}: bad output {raw[:200]!r}")
            continue
        if "worker_error" in agg:
            total["worker_errors"].append(agg["worker_error"])
            continue
        total["runs"] += agg["runs"]
        total["failed_runs"] += agg["failed_runs"]
        for k, v in agg["counters"].items():
            total["counters"][k] = total["counters"].get(k, 0) + v
        total["distinct"].update(agg["distinct"])
        total["failures"].extend(agg["failures"])
        total["timeouts"].extend(agg["timeouts"])
        total["harness_errors"].extend(agg["harness_errors"])
        total["samples"].extend(agg["samples"])
        total["digests"].update(agg.get("digests", {}))
        for k, v in agg.get("suppressed", {}).items():
            total["suppressed"][k] = total["suppressed"].get(k, 0) + v
        total["cut_short"] = total["cut_short"] or agg["cut_short"]
    total["failures"].sort(key=lambda f: f["index"])
    total["timeouts"].sort()
    total["samples"].sort()
    total["wall_s"] = time.monotonic() - t0
    return total


def execute_scenario(machine, scenario: Dict, wall_cap: float = CHILD_WALL_CAP) -> Dict:
    """Interpret an explicit scenario in a fresh child."""
    return in_child(machine.execute, scenario, wall_cap)


def generate_scenario(machine, verif_seed: int, prop: str, index: int, cfg: Dict) -> Dict:
    return machine.generate(kernel.run_rng(verif_seed, prop, index), dict(cfg, _index=index))
