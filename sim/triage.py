"""
Attribution of a verdict to an open known finding.

An open entry suppresses a verdict only if its rule is listed, every feature of the entry's signature has the same
value in the verdict's features, and - when the entry names a neutraliser - the verdict disappears once the trigger
is removed from the failing run.  Removing one trigger can let the victim live longer and meet the same or ANOTHER
listed trigger, so the neutralisers of all entries whose signature the remaining verdict carries are applied
cumulatively, to a fixed point.
"""
from __future__ import annotations

from typing import Dict, List, Optional

from . import procs


def rule_matches(entry_rules, rule: str) -> bool:
    return rule in entry_rules


def signature_matches(entry_sig: dict, features: dict) -> bool:
    return all(features.get(k) == v for k, v in entry_sig.items())


def matches(entry: Dict, verdict: Dict) -> bool:
    return rule_matches(entry["rules"], verdict["rule"]) and signature_matches(entry.get("signature", {}), verdict["features"])


def attribute(machine, scenario: Dict, verdict: Dict, open_entries: List[Dict]) -> Optional[Dict]:
    # 1. findings attributed on their signature alone (the run applies the neutraliser itself)
    for e in open_entries:
        if not e.get("neutraliser") and matches(e, verdict):
            return e
    # 2. findings with a neutraliser
    current, current_v, used = scenario, verdict, []
    for _ in range(10):
        progressed = False
        for e in open_entries:
            if not e.get("neutraliser") or not matches(e, current_v):
                continue
            neutral = machine.neutralise(current, e["neutraliser"], current_v)
            if neutral is None or (neutral.get("ops") == current.get("ops") and neutral.get("queries") == current.get("queries")):
                continue
            nres = procs.execute_scenario(machine, neutral)
            if "harness_error" in nres or nres.get("timeout"):
                continue
            used.append(e)
            progressed = True
            again = [nv for nv in nres["verdicts"] if machine.same_target(verdict, nv)]
            if not again:
                return used[0]
            current, current_v = neutral, again[0]
            break
        if not progressed:
            return None
    return None
