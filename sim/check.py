#!/venv/bin/python
"""
Entry point of every registered check.

  check.py --property C03 --tier quick|thorough      explore, triage, write evidence
  check.py --replay FILE                              re-execute a replay file

Exit codes: 0 property held on everything explored (KNOWN-FINDING lines allowed),
1 a violation was found (line `VIOLATION property=<id> replay=<path>`),
3 harness anomaly (never reported as a pass, never as a violation).
"""
from __future__ import annotations

import os
import sys

if os.environ.get("PYTHONHASHSEED") is None:
    # set order inside the interpreter becomes a controlled input
    os.environ["PYTHONHASHSEED"] = "0"
    os.execv(sys.executable, [sys.executable] + sys.argv)

# the one guarded hook in /repo (symbolic.py): conclusions of a node in insertion order instead of address order
os.environ.setdefault("KRROOD_VERIF", "1")

VERIF = os.path.dirname(os.path.dirname(os.path.abspath(__file__)))
KRROOD_SRC = os.environ.get("KRROOD_SRC", "/repo/src")
sys.path.insert(0, VERIF)
sys.path.insert(0, KRROOD_SRC)  # the current working tree is what runs, whatever the venv has installed

import argparse
import importlib
import json
import subprocess
import time
import warnings

warnings.filterwarnings("ignore", category=SyntaxWarning)

from sim import kernel, procs, minimise, registry, triage  # noqa: E402

# the two output directories can be redirected (the sensitivity self-test runs the checks against mutated
# copies of the source and must not overwrite the evidence of the real tree)
REPLAY_DIR = os.environ.get("VERIF_REPLAY_DIR", os.path.join(VERIF, "replays"))
EVIDENCE_DIR = os.environ.get("VERIF_EVIDENCE_DIR", os.path.join(VERIF, "evidence"))
FINDINGS_FILE = os.path.join(VERIF, "known_findings.json")


def repo_tree_id() -> str:
    try:
        head = subprocess.run(["git", "-C", "/repo", "rev-parse", "HEAD"], capture_output=True, text=True, timeout=20).stdout.strip()
        dirty = subprocess.run(["git", "-C", "/repo", "status", "--porcelain", "--", "src"], capture_output=True, text=True, timeout=20).stdout.strip()
        return head + ("+dirty" if dirty else "")
    except Exception:
        return "unknown"


def load_findings(prop: str):
    if not os.path.exists(FINDINGS_FILE):
        return []
    with open(FINDINGS_FILE) as f:
        data = json.load(f)
    return [e for e in data.get("entries", []) if e["property"] == prop]


signature_matches = triage.signature_matches
rule_matches = triage.rule_matches


def write_replay(prop: str, spec, scenario: dict, verdicts, digest_, verif_seed, index, extra=None) -> str:
    os.makedirs(REPLAY_DIR, exist_ok=True)
    name = f"{prop}-{verif_seed}-{index}.json"
    path = os.path.join(REPLAY_DIR, name)
    doc = {
        "property": prop,
        "machine": spec["machine"],
        "verif_seed": verif_seed,
        "run_index": index,
        "repo_tree": repo_tree_id(),
        "scenario": scenario,
        "verdicts": verdicts,
        "event_digest": digest_,
    }
    if extra:
        doc.update(extra)
    with open(path, "w") as f:
        json.dump(doc, f, indent=1, sort_keys=True, default=kernel._default)
    return path


def replay_file(path: str) -> int:
    with open(path) as f:
        doc = json.load(f)
    prop = doc["property"]
    spec = registry.PROPERTIES[prop]
    machine = importlib.import_module("sim.machines." + doc.get("machine", spec["machine"]))
    res = procs.execute_scenario(machine, doc["scenario"])
    if "harness_error" in res:
        print("HARNESS-ERROR during replay:\n" + res["harness_error"])
        return 3
    if res.get("timeout"):
        print(f"replay timed out (hang) - rule {prop}.hang")
        print(f"VIOLATION property={prop} replay={path}")
        return 1
    rules = sorted({v["rule"] for v in res["verdicts"]})
    print(f"replay of {path}: rules fired: {rules or 'none'}; event digest {res['digest']}"
          + (" (matches the recorded digest)" if res["digest"] == doc.get("event_digest") else f" (recorded: {doc.get('event_digest')})"))
    for v in res["verdicts"]:
        print("  " + v["rule"] + ": " + v["detail"])
    if res["verdicts"]:
        print(f"VIOLATION property={prop} replay={path}")
        return 1
    return 0


def same_class_pred(machine, target_verdict):
    same = getattr(machine, "same_class")

    def pred(res):
        if res.get("timeout"):
            return target_verdict["rule"].endswith(".hang")
        return any(same(target_verdict, v) for v in res.get("verdicts", []))

    return pred


def run_check(prop: str, tier: str) -> int:
    spec = registry.PROPERTIES[prop]
    machine = importlib.import_module("sim.machines." + spec["machine"])
    verif_seed = int(os.environ.get("VERIF_SEED", kernel.DEFAULT_SEED))
    print(f"VERIF_SEED={verif_seed} property={prop} tier={tier} machine={spec['machine']} krrood={KRROOD_SRC} PYTHONHASHSEED={os.environ.get('PYTHONHASHSEED')}")
    t0 = time.monotonic()
    tcfg = dict(spec["tiers"][tier])
    n_runs = int(os.environ.get("VERIF_RUNS", tcfg["runs"]))
    wall_budget = float(os.environ.get("VERIF_WALL", tcfg["wall_s"]))
    workers = int(os.environ.get("VERIF_WORKERS", min(16, os.cpu_count() or 1)))
    cfg = dict(spec.get("cfg", {}), property=prop, tier=tier, **tcfg.get("cfg", {}))
    entries = load_findings(prop)
    open_entries = [e for e in entries if e["status"] == "open"]
    fixed_entries = [e for e in entries if e["status"] == "fixed"]
    violations = []  # (path, verdict)
    anomalies = []
    suppressed = {e["id"]: 0 for e in open_entries}
    known_lines = []

    # 1. committed witnesses: open ones must still violate, fixed ones must not
    for e in entries:
        for wrel in e.get("witnesses", []):
            wpath = os.path.join(VERIF, wrel)
            if not os.path.exists(wpath):
                anomalies.append(f"witness file {wrel} of {e['id']} is missing")
                continue
            with open(wpath) as f:
                wdoc = json.load(f)
            wmachine = importlib.import_module("sim.machines." + wdoc.get("machine", spec["machine"]))
            res = procs.execute_scenario(wmachine, wdoc["scenario"])
            if "harness_error" in res:
                anomalies.append(f"witness {wrel}: {res['harness_error']}")
                continue
            if res.get("timeout"):
                res = {"verdicts": [kernel.verdict(prop + ".hang", "witness replay hangs", failure="hang")], "digest": None}
            fired = [v for v in res["verdicts"] if rule_matches(e["rules"], v["rule"]) and signature_matches(e.get("signature", {}), v["features"])]
            if e["status"] == "open":
                if fired:
                    line = f"KNOWN-FINDING: property={prop} {e['what']}"
                    if line not in known_lines:
                        known_lines.append(line)
                else:
                    print(f"note: witness {wrel} of open finding {e['id']} no longer violates on this tree")
                others = [v for v in res["verdicts"] if v not in fired]
            else:
                # a fixed entry suppresses nothing: its witnesses must pass
                others = res["verdicts"]
            for v in others:
                if any(rule_matches(o["rules"], v["rule"]) and signature_matches(o.get("signature", {}), v["features"]) for o in open_entries):
                    continue
                path = write_replay(prop, spec, wdoc["scenario"], res["verdicts"], res.get("digest"), verif_seed, "witness-" + os.path.basename(wrel).replace(".json", ""))
                violations.append((path, v))

    # 2. exploration
    batch = procs.run_batch(machine, prop, verif_seed, cfg, n_runs, workers, wall_budget=wall_budget, max_keep=5000, open_entries=open_entries)
    for k, v in batch.get("suppressed", {}).items():
        suppressed[k] = suppressed.get(k, 0) + v
    if batch["worker_errors"]:
        anomalies.extend(batch["worker_errors"])
    for he in batch["harness_errors"][:3]:
        anomalies.append(f"run {he['index']}: {he.get('error', '')}")
    if len(batch["harness_errors"]) > 3:
        anomalies.append(f"... {len(batch['harness_errors'])} harness errors in total")

    # 3. timeouts: re-run once with a larger cap; a reproducible hang is a violation
    for index in batch["timeouts"][:10]:
        scenario = procs.generate_scenario(machine, verif_seed, prop, index, cfg)
        res = procs.execute_scenario(machine, scenario, wall_cap=5 * procs.CHILD_WALL_CAP)
        if res.get("timeout"):
            v = kernel.verdict(prop + ".hang", "the run does not finish within the wall cap", failure="hang")
            path = write_replay(prop, spec, scenario, [v], None, verif_seed, index)
            violations.append((path, v))
        else:
            anomalies.append(f"run {index} timed out once and finished on re-execution")

    # 4. triage of failing runs
    triaged = 0
    triage_deadline = time.monotonic() + float(os.environ.get("VERIF_TRIAGE_S", tcfg.get("triage_s", 120)))
    reported_classes = []
    untriaged = 0
    nondeterministic_failures = 0
    for fail in batch["failures"]:
        if time.monotonic() > triage_deadline:
            untriaged += 1
            continue
        index = fail["index"]
        scenario = procs.generate_scenario(machine, verif_seed, prop, index, cfg)
        res = procs.execute_scenario(machine, scenario)
        triaged += 1
        if "harness_error" in res or res.get("timeout"):
            anomalies.append(f"run {index}: failing run could not be re-executed: {res}")
            continue
        if res.get("digest") != fail.get("digest"):
            # Outcomes that depend on which id() / address a new object receives (a stale entry under a reused id)
            # differ between processes with another allocation history.  That is nondeterminism of the system
            # under test, not of the schedule: keep what the re-execution shows, and say so.
            nondeterministic_failures += 1
            if not res.get("verdicts"):
                anomalies.append(f"run {index}: a failing run ({[v['rule'] for v in fail['verdicts']]}) did not fail when re-executed - its outcome depends on the process's allocation history")
                continue
        for v in res["verdicts"]:
            attributed = triage.attribute(machine, scenario, v, open_entries)
            if attributed is not None:
                suppressed[attributed["id"]] += 1
                continue
            if any(machine.same_class(v, rv) for rv in reported_classes) and len(violations) >= 3:
                violations.append((None, v))
                continue
            reported_classes.append(v)
            small = minimise.minimise(machine, scenario, same_class_pred(machine, v),
                                      execs=int(os.environ.get("VERIF_MIN_EXECS", 600)),
                                      seconds=float(os.environ.get("VERIF_MIN_S", 30)))
            sres = procs.execute_scenario(machine, small)
            if sres.get("verdicts"):
                path = write_replay(prop, spec, small, sres["verdicts"], sres.get("digest"), verif_seed, index,
                                    extra={"original_ops": len(scenario.get("ops", []))})
            else:
                path = write_replay(prop, spec, scenario, res["verdicts"], res.get("digest"), verif_seed, index)
            violations.append((path, v))
    if untriaged:
        anomalies.append(f"{untriaged} failing runs were not triaged within the triage budget")
    if nondeterministic_failures:
        print(f"note: {nondeterministic_failures} failing runs gave another event digest when re-executed (address-dependent outcome)")

    wall = time.monotonic() - t0

    # 5. evidence
    samples = []
    for index in batch["samples"][:3]:
        sc = procs.generate_scenario(machine, verif_seed, prop, index, cfg)
        samples.append({"run_index": index, "scenario": sc})
    if not samples and batch["runs"]:
        samples.append({"run_index": 0, "scenario": procs.generate_scenario(machine, verif_seed, prop, 0, cfg)})
    counters = batch["counters"]
    faults = {k[len("fault."):]: v for k, v in counters.items() if k.startswith("fault.")}
    probes = {k[len("probe."):]: v for k, v in counters.items() if k.startswith("probe.")}
    runs_per_hour = int(batch["runs"] / batch["wall_s"] * 3600) if batch["wall_s"] > 0 else 0
    evidence = {
        "property_id": prop,
        "tier": tier,
        "seed": verif_seed,
        "level": spec["level"],
        "coverage": {
            "evaluations": batch["runs"],
            "distinct_nontrivial": len(batch["distinct"]),
            "rule": spec["rule"],
            "samples": samples,
            "exhaustive": False,
            "runs_per_hour": runs_per_hour,
            "run_indices": [0, n_runs - 1],
            "batch_cut_short_by_wall_budget": batch["cut_short"],
            "simulated_time": f"none - the system has no clock; logical steps: {counters.get('task_steps', counters.get('ops', 0))} steps, {counters.get('user_events', 0)} user-code events",
            "faults_delivered": faults,
            "probes": probes,
            "counters": {k: v for k, v in counters.items() if not k.startswith(("fault.", "probe."))},
            "components": spec["components"],
            "failing_runs": batch["failed_runs"],
            "failing_runs_triaged": triaged,
            "failing_runs_with_address_dependent_outcome": nondeterministic_failures,
            "known_findings_suppressed": suppressed,
            "known_findings_open": [e["id"] for e in open_entries],
            "known_findings_fixed": [e["id"] + "@" + e.get("commit", "") for e in fixed_entries],
            "witness_replays": sum(len(e.get("witnesses", [])) for e in entries),
            "timeouts": len(batch["timeouts"]),
            "harness_anomalies": len(anomalies),
            "workers": workers,
            "repo_tree": repo_tree_id(),
        },
        "assumptions": spec["assumptions"],
        "wall_s": round(wall, 2),
        "violations": len(violations),
    }
    extra_cov = getattr(machine, "extra_coverage", None)
    if extra_cov:
        evidence["coverage"].update(extra_cov(prop, tier, cfg))
    os.makedirs(EVIDENCE_DIR, exist_ok=True)
    with open(os.path.join(EVIDENCE_DIR, f"{prop}.json"), "w") as f:
        json.dump(evidence, f, indent=1, sort_keys=True, default=kernel._default)

    # 6. report
    print(f"{prop}/{tier}: {batch['runs']} runs ({runs_per_hour}/h), {len(batch['distinct'])} distinct non-trivial, "
          f"{batch['failed_runs']} failing runs, {sum(suppressed.values())} verdicts attributed to open findings, "
          f"{len(violations)} violations, {len(anomalies)} anomalies, {wall:.1f}s")
    for k in sorted(faults):
        print(f"  fault {k}: {faults[k]}")
    for k in sorted(probes):
        print(f"  probe {k}: {probes[k]}")
    for line in known_lines:
        print(line)
    for a in anomalies[:10]:
        print("HARNESS-ANOMALY: " + str(a)[:2000])
    shown = set()
    for path, v in violations:
        if path and path not in shown:
            shown.add(path)
            print(f"  {v['rule']}: {v['detail']}")
            print(f"VIOLATION property={prop} replay={path}")
    if violations:
        return 1
    if anomalies:
        return 3
    if batch["runs"] == 0:
        print("HARNESS-ANOMALY: nothing was executed")
        return 3
    return 0


def main():
    ap = argparse.ArgumentParser()
    ap.add_argument("--property")
    ap.add_argument("--tier", default=os.environ.get("VERIF_TIER", "quick"))
    ap.add_argument("--replay")
    args = ap.parse_args()
    if args.replay:
        sys.exit(replay_file(args.replay))
    if not args.property:
        ap.error("--property or --replay required")
    sys.exit(run_check(args.property, args.tier))


if __name__ == "__main__":
    main()
