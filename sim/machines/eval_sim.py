"""
Sim-E: the evaluation simulator (properties C03 and C10).

Tasks are the generators returned by evaluate(); the op list decides every next(),
close(), reference drop and gc.  The oracle for C03 is the real engine run in
isolation on a freshly built copy of the same scenario; for C10 it is the event
order recorded by the monitor relative to the consumer's actions.
"""
from __future__ import annotations

import gc
import operator
import os
from typing import Any, Dict, List, Optional

from .. import kernel
from ..worlds import eworld
from ..worlds.eworld import Monitor, FuseBlown

from krrood.entity_query_language.entity import (
    let,
    entity,
    set_of,
    and_,
    or_,
    not_,
    in_,
    contains,
    flatten,
    for_all,
    exists,
    inference,
)
from krrood.entity_query_language.quantify_entity import an, the
from krrood.entity_query_language.conclusion import Add
from krrood.entity_query_language.rule import refinement, alternative, next_rule
from krrood.entity_query_language.result_quantification_constraint import (
    AtLeast,
    AtMost,
    Exactly,
)
from krrood.entity_query_language.symbolic import SymbolicExpression

OPS = {
    "==": operator.eq,
    "!=": operator.ne,
    "<": operator.lt,
    "<=": operator.le,
    ">": operator.gt,
    ">=": operator.ge,
}

STEP_CAP = 400  # results per drain
FUSE_FACTOR = 50
FUSE_SLACK = 400


class BuildError(Exception):
    pass


class HarnessAbort(BaseException):
    """An exception of harness code raised inside user code of a step; never attributed to the engine."""


# --------------------------------------------------------------------------- build


class Built:
    """One instantiation of a scenario: world objects plus krrood query objects."""

    def __init__(self, scenario: Dict, mon: Monitor, reference: bool = False):
        self.sc = scenario
        self.mon = mon
        # the isolated reference builds every query in one go; the history under test may evaluate a rule query
        # before its rules are attached (rule["early"])
        self.reference = reference
        self.early_log: List[list] = []
        self.items: Dict[int, eworld.Item] = {}
        self.domain_lists: Dict[int, list] = {}
        self.vars: List[Any] = []
        self.shared: Dict[int, Any] = {}
        self.subq: Dict[int, Any] = {}
        self.queries: List[Any] = []
        self.labels: Dict[int, str] = {}
        self.outs: Dict[int, Any] = {}
        eworld.set_monitor(mon)
        eworld.Item.salt = scenario.get("salt", 0)
        mon.phase = "SETUP"
        self._make_world()
        mon.phase = "BUILD"
        # a stale construction stack from an earlier build must not leak into this one
        del SymbolicExpression._symbolic_expression_stack_[:]
        self._make_vars()
        for qi, qd in enumerate(scenario["queries"]):
            self.queries.append(self._make_query(qd, qi))
        mon.phase = "IDLE"

    def _make_world(self):
        for dom in self.sc["domains"]:
            lst = []
            for it in dom["items"]:
                cls = eworld.ITEM_TYPES[it["t"]]
                obj = cls(it["s"], it["a"], it["b"], list(it["xs"]), None)
                self.items[it["s"]] = obj
                lst.append(obj)
            self.domain_lists[dom["id"]] = lst
        for dom in self.sc["domains"]:
            for it in dom["items"]:
                if it.get("ref") is not None and it["ref"] in self.items:
                    if isinstance(self.items[it["s"]], eworld.PItem):
                        self.items[it["s"]].ref = self.items[it["ref"]]
                    else:
                        self.items[it["s"]]._ref = self.items[it["ref"]]

    def _domain_object(self, dom_id: int):
        dom = next((d for d in self.sc["domains"] if d["id"] == dom_id), None)
        if dom is None:
            raise BuildError(f"no domain {dom_id}")
        kind = dom["kind"]
        if kind == "list":
            return self.domain_lists[dom_id]
        if kind == "gen":
            return eworld.stream(dom_id, self.domain_lists[dom_id])
        if kind == "sized":
            return eworld.SizedDomain(dom_id, self.domain_lists[dom_id])
        if kind == "inf":
            return eworld.endless_stream(
                dom_id, eworld.ITEM_TYPES[dom.get("t", "A")], 100000 * (dom_id + 1), dom["pattern"]
            )
        raise BuildError(kind)

    def _make_vars(self):
        for vd in self.sc["vars"]:
            v = let(eworld.ITEM_TYPES[vd["t"]], self._domain_object(vd["dom"]), name=vd["name"])
            self.vars.append(v)
            self.labels[id(v)] = vd["name"]

    # expressions ------------------------------------------------------------------
    def bx(self, e):
        if not isinstance(e, list):
            return e
        tag = e[0]
        if tag == "var":
            if e[1] >= len(self.vars):
                raise BuildError("no var")
            return self.vars[e[1]]
        if tag == "lit":
            return e[1]
        if tag == "item":
            if e[1] not in self.items:
                raise BuildError("no item")
            return self.items[e[1]]
        if tag == "attr":
            return getattr(self.bx(e[1]), e[2])
        if tag == "call":
            return getattr(self.bx(e[1]), e[2])(*e[3])
        if tag == "idx":
            return self.bx(e[1])[e[2]]
        if tag == "cmp":
            return OPS[e[1]](self.bx(e[2]), self.bx(e[3]))
        if tag == "in":
            return in_(self.bx(e[1]), self.bx(e[2]))
        if tag == "contains":
            return contains(self.bx(e[1]), self.bx(e[2]))
        if tag == "and":
            return and_(*[self.bx(x) for x in e[1:]])
        if tag == "or":
            return or_(*[self.bx(x) for x in e[1:]])
        if tag == "not":
            return not_(self.bx(e[1]))
        if tag == "flatten":
            return flatten(self.bx(e[1]))
        if tag == "exists":
            return exists(self.bx(e[1]), self.bx(e[2]))
        if tag == "forall":
            return for_all(self.bx(e[1]), self.bx(e[2]))
        if tag == "pred":
            return eworld.PREDICATES[e[1]](**{k: self.bx(v) for k, v in e[2].items()})
        if tag == "fn":
            return eworld.FUNCTIONS[e[1]](**{k: self.bx(v) for k, v in e[2].items()})
        if tag == "stream":
            values = self.sc.get("streams", [])
            if e[1] >= len(values):
                raise BuildError("no stream")
            return eworld.one_shot(e[2] if len(e) > 2 else "gen", 1000 + e[1], values[e[1]])
        if tag == "shared":
            k = e[1]
            if k not in self.shared:
                if k >= len(self.sc.get("shared", [])):
                    raise BuildError("no shared")
                self.shared[k] = self.bx(self.sc["shared"][k])
            return self.shared[k]
        if tag == "subq":
            k = e[1]
            if k not in self.subq:
                if k >= len(self.sc.get("subqueries", [])):
                    raise BuildError("no subq")
                self.subq[k] = self._make_query(self.sc["subqueries"][k], None)
            return self.subq[k]
        raise BuildError(f"unknown tag {tag}")

    def _make_query(self, qd: Dict, qi: Optional[int]):
        if qd.get("pattern"):
            return self._make_pattern_query(qd)
        rule = qd.get("rule")
        conds = [self.bx(c) for c in qd.get("conds", [])]
        if rule:
            base_cls = eworld.INFERRED_TYPES["K0"]
            if rule.get("out") == "let":
                out = let(base_cls, None, name="out")
            else:
                out = inference(base_cls)()
            self.labels[id(out)] = "out"
            desc = entity(out, *conds)
        else:
            sel = [self.bx(s) for s in qd["sel"]]
            for s, sd in zip(sel, qd["sel"]):
                self.labels.setdefault(id(s), kernel.canonical(sd))
            if qd.get("shape") == "set_of":
                desc = set_of(sel, *conds)
            else:
                desc = entity(sel[0], *conds)
        if qd.get("q") == "the":
            query = the(desc)
        else:
            quant = qd.get("quant")
            if quant:
                cons = {"atleast": AtLeast, "atmost": AtMost, "exactly": Exactly}[quant[0]](quant[1])
                query = an(desc, quantification=cons)
            else:
                query = an(desc)
        if rule and rule.get("early") is not None and not self.reference:
            self._evaluate_early(query, qi, rule["early"])
        if rule:
            with query:
                self._add_conclusion(out, rule["base"])
                for br in rule.get("branches", []):
                    self._make_branch(out, br)
        return query

    def _evaluate_early(self, query, qi, k: int):
        """The program evaluates the query object before it attaches the rules (k results, -1: all of them)."""
        mon = self.mon
        saved = (mon.phase, mon.step_events, mon.fuse)
        mon.phase, mon.step_events, mon.fuse = "EARLY", 0, 3000
        n, end = 0, "left"
        try:
            it = query.evaluate()
            while k < 0 or n < k:
                try:
                    next(it)
                except StopIteration:
                    end = "stop"
                    break
                n += 1
                if n >= STEP_CAP:
                    break
            del it
        except eworld.FuseBlown:
            end = "fuse"
        except Exception as e:
            end = "exc:" + exc_name(e)
        finally:
            mon.phase, mon.step_events, mon.fuse = saved
        self.early_log.append([qi, k, n, end])

    def _make_pattern_query(self, qd: Dict):
        from krrood.entity_query_language.match import entity_matching, match

        def value_of(spec):
            if isinstance(spec, list) and spec and spec[0] == "match":
                return match(eworld.ITEM_TYPES[spec[1].get("t", "P")])(**{k: value_of(v) for k, v in spec[1]["kw"].items()})
            return self.bx(spec)

        pd = qd["pattern"]
        pattern = entity_matching(eworld.ITEM_TYPES[pd.get("t", "P")], self._domain_object(pd["dom"]))(**{k: value_of(v) for k, v in pd["kw"].items()})
        return the(pattern) if qd.get("q") == "the" else an(pattern)

    def _add_conclusion(self, out, concl: Dict):
        cls = eworld.INFERRED_TYPES[concl["cls"]]
        Add(out, inference(cls)(**{k: self.bx(v) for k, v in concl["kw"].items()}))

    def _make_branch(self, out, br: Dict):
        fn = {"refinement": refinement, "alternative": alternative, "next": next_rule}[br["kind"]]
        with fn(*[self.bx(c) for c in br["conds"]]):
            self._add_conclusion(out, br["concl"])
            for sub in br.get("branches", []):
                self._make_branch(out, sub)

    # normalisation ----------------------------------------------------------------
    def norm(self, v, depth=0):
        from krrood.entity_query_language.hashed_data import HashedValue
        from krrood.entity_query_language.symbolic import UnificationDict

        if depth > 6:
            return ["deep"]
        if isinstance(v, HashedValue):
            return self.norm(v.value, depth + 1)
        if isinstance(v, eworld.Item):
            return ["i", v.serial]
        if isinstance(v, eworld.PItem):
            return ["i", object.__getattribute__(v, "serial")]
        if isinstance(v, eworld.Inferred):
            return [
                "k",
                type(v).__name__,
                sorted([k, self.norm(x, depth + 1)] for k, x in v.kwargs.items()),
            ]
        if isinstance(v, UnificationDict):
            rows = []
            for k, x in v.data.items():
                label = self.labels.get(id(k)) or getattr(k, "_name_", "?")
                rows.append([label, self.norm(x, depth + 1)])
            return ["row", sorted(rows, key=kernel.canonical)]
        if isinstance(v, (bool, int, str)) or v is None:
            return v
        if isinstance(v, float):
            return repr(v)
        if isinstance(v, (list, tuple)):
            return ["l", [self.norm(x, depth + 1) for x in v]]
        if isinstance(v, (set, frozenset)):
            return ["s", sorted((self.norm(x, depth + 1) for x in v), key=kernel.canonical)]
        return ["o", type(v).__name__]


def exc_name(e: BaseException) -> str:
    return type(e).__name__


# --------------------------------------------------------------------------- reference


def isolated_reference(scenario: Dict, qi: int, fuse: Optional[int] = 200000) -> Dict:
    """
    What evaluation `qi` produces when run alone on a freshly built scenario:
    {"results": [...], "end": "stop" | "exc:<Type>" | "fuse", "events": n}
    For the(...) queries results holds the single value.
    """
    mon = Monitor()
    mon.record = False
    try:
        built = Built(scenario, mon, reference=True)
    except BuildError:
        raise
    except Exception as e:  # engine refuses the construction: same for every build
        return {"results": [], "end": "build:" + exc_name(e), "events": 0}
    q = built.queries[qi]
    qd = scenario["queries"][qi]
    mon.phase = "REF"
    mon.step_events = 0
    mon.fuse = fuse
    results = []
    end = "stop"
    try:
        if qd.get("q") == "the":
            results.append(built.norm(q.evaluate()))
        else:
            it = q.evaluate()
            for r in it:
                results.append(built.norm(r))
                if len(results) > STEP_CAP:
                    end = "cap"
                    break
    except FuseBlown:
        end = "fuse"
    except Exception as e:
        end = "exc:" + exc_name(e)
    return {"results": results, "end": end, "events": mon.seq}


# --------------------------------------------------------------------------- execution


class Task:
    def __init__(self, tid, qi, it):
        self.tid = tid
        self.qi = qi
        self.it = it
        self.results: List[Any] = []
        self.state = "new"  # new | live | done | failed | closed | dropped
        self.diverged = False
        self.overlaps = set()
        self.steps = 0
        self.before = set()  # queries evaluated (started) before this task first ran
        self.reentrant = False  # pre-empted inside a step, or stepped from inside another task's step
        self.first_step_clock = None  # logical time of this task's first next()
        self.step_intervals = []  # [begin, end] in logical time of each of its next() calls (end None while it executes)


def query_var_ids(scenario: Dict, qd: Dict) -> set:
    out = set()

    def walk(e):
        if isinstance(e, list):
            if e and e[0] == "var":
                out.add(e[1])
            elif e and e[0] == "shared":
                if e[1] < len(scenario.get("shared", [])):
                    walk(scenario["shared"][e[1]])
            elif e and e[0] == "subq":
                if e[1] < len(scenario.get("subqueries", [])):
                    walk_q(scenario["subqueries"][e[1]])
            else:
                for x in e:
                    walk(x)
        elif isinstance(e, dict):
            for x in e.values():
                walk(x)

    def walk_q(q):
        walk(q.get("sel", []))
        walk(q.get("conds", []))
        if q.get("rule"):
            walk(q["rule"])

    walk_q(qd)
    return out


def query_shared_ids(qd: Dict, scenario: Optional[Dict] = None) -> set:
    """The shared condition / attribute nodes and sub-query objects a query contains (references are followed)."""
    out = set()

    def walk(e):
        if isinstance(e, list):
            if e and e[0] in ("shared",):
                if ("shared", e[1]) not in out:
                    out.add(("shared", e[1]))
                    if scenario is not None and e[1] < len(scenario.get("shared", [])):
                        walk(scenario["shared"][e[1]])
            elif e and e[0] == "subq":
                if ("subq", e[1]) not in out:
                    out.add(("subq", e[1]))
                    if scenario is not None and e[1] < len(scenario.get("subqueries", [])):
                        walk(scenario["subqueries"][e[1]])
            for x in e:
                walk(x)
        elif isinstance(e, dict):
            for x in e.values():
                walk(x)

    walk(qd.get("sel", []))
    walk(qd.get("conds", []))
    if qd.get("rule"):
        walk(qd["rule"])
    return out


def sharing_between(scenario: Dict, qa: int, qb: int) -> str:
    if qa == qb:
        return "same-query"
    da, db = scenario["queries"][qa], scenario["queries"][qb]
    if query_shared_ids(da, scenario) & query_shared_ids(db, scenario):
        return "expression"
    va, vb = query_var_ids(scenario, da), query_var_ids(scenario, db)
    if va & vb:
        return "variable"
    doms_a = {scenario["vars"][v]["dom"] for v in va if v < len(scenario["vars"])}
    doms_b = {scenario["vars"][v]["dom"] for v in vb if v < len(scenario["vars"])}
    if doms_a & doms_b:
        return "domain"
    return "none"


SHARE_RANK = {"none": 0, "domain": 1, "variable": 2, "expression": 3, "same-query": 4}


def execute(scenario: Dict) -> Dict:
    prop = scenario.get("property", "C03")
    if prop == "C10":
        from . import lazy_rules

        return lazy_rules.execute(scenario)
    return execute_c03(scenario)


def execute_c03(scenario: Dict) -> Dict:
    log = kernel.EventLog()
    counters = kernel.Counters()
    verdicts: List[Dict] = []
    nq = len(scenario["queries"])

    # references first (each on its own fresh build), twice to detect order instability
    refs: Dict[int, Dict] = {}
    unstable = set()
    def all_ops(ops):
        for op in ops:
            yield op
            if op[0] == "step" and len(op) > 2 and op[2]:
                for _, nested in op[2]:
                    yield from all_ops(nested)

    used_q = sorted({op[2] for op in all_ops(scenario["ops"]) if op[0] == "start" and op[2] < nq}
                    | {op[1] for op in all_ops(scenario["ops"]) if op[0] == "the" and op[1] < nq})
    max_events = 0
    for qi in used_q:
        r1 = isolated_reference(scenario, qi)
        r2 = isolated_reference(scenario, qi)
        refs[qi] = r1
        max_events = max(max_events, r1["events"])
        if r1 != r2:
            if sorted(map(kernel.canonical, r1["results"])) == sorted(
                map(kernel.canonical, r2["results"])
            ) and r1["end"] == r2["end"]:
                unstable.add(qi)
                counters.inc("probe.reference_order_unstable")
            else:
                counters.inc("probe.reference_not_reproducible")
                unstable.add(qi)
                refs[qi] = dict(r1, unreliable=True)
        log.add("ref", qi, r1["results"], r1["end"])

    mon = Monitor()
    try:
        built = Built(scenario, mon)
    except BuildError:
        return _result(log, counters, [], False, 0, note="invalid-scenario")
    except Exception as e:
        counters.inc("build_refused")
        log.add("build-exc", exc_name(e))
        return _result(log, counters, [], False, 0, note="build-refused")

    for rec in built.early_log:
        log.add("early", *rec)
        counters.inc("fault.evaluated_before_rules_attached")
    fuse = FUSE_FACTOR * max_events + FUSE_SLACK
    tasks: Dict[int, Task] = {}
    cycles = []
    evaluated_before = set()
    nontrivial = False
    max_share = "none"

    def live_tasks():
        return [t for t in tasks.values() if t.state == "live"]

    def note_overlap(task: Task):
        nonlocal nontrivial, max_share
        for other in live_tasks():
            if other is task:
                continue
            task.overlaps.add(other.tid)
            other.overlaps.add(task.tid)
            share = sharing_between(scenario, task.qi, other.qi)
            if SHARE_RANK[share] >= 2:
                nontrivial = True
            if SHARE_RANK[share] > SHARE_RANK[max_share]:
                max_share = share

    def features_for(task: Task, failure: str) -> Dict:
        qd = scenario["queries"][task.qi]
        share = "none"
        same_query_overlap = False
        expression_overlap = False
        for o in task.overlaps:
            s = sharing_between(scenario, task.qi, tasks[o].qi)
            if SHARE_RANK[s] > SHARE_RANK[share]:
                share = s
            if tasks[o].qi == task.qi:
                same_query_overlap = True
            # a condition node / sub-query object used at more than one place (in both queries, or - for two
            # evaluations of one query - anywhere in it) is evaluated by both live evaluations
            if query_shared_ids(qd, scenario) & query_shared_ids(scenario["queries"][tasks[o].qi], scenario):
                expression_overlap = True
        kinds = sorted(
            {
                next((d["kind"] for d in scenario["domains"] if d["id"] == scenario["vars"][v]["dom"]), "?")
                for v in query_var_ids(scenario, qd)
                if v < len(scenario["vars"])
            }
        )
        return {
            "task": task.tid,
            "query": task.qi,
            "rule_query": bool(qd.get("rule")),
            "evaluated_before_rules": bool(qd.get("rule") and qd["rule"].get("early") is not None),
            "overlap": bool(task.overlaps),
            "shares": share,
            "same_query_overlap": same_query_overlap,
            "same_query_overlap_tasks": sorted(o for o in task.overlaps if tasks[o].qi == task.qi),
            # another evaluation of the same query object was EXECUTING at some moment after this one had started - it
            # was started or advanced later, or this one runs nested inside one of its steps (closing or dropping a
            # dormant one is no disturbance: a suspended generator that is never resumed writes nothing)
            "same_query_disturbed": any(tasks[o].qi == task.qi and any(iv[1] is None or iv[1] > (task.first_step_clock or 0) for iv in tasks[o].step_intervals) for o in task.overlaps),
            "shared_node_overlap": expression_overlap,
            "reevaluation": task.qi in task.before,
            "reentrant": task.reentrant,
            "domain_kinds": kinds,
            "failure": failure,
        }

    def check_result(task: Task, value):
        ref = refs[task.qi]
        i = len(task.results)
        task.results.append(value)
        if task.diverged or ref.get("unreliable"):
            return
        if task.qi in unstable:
            pool = list(map(kernel.canonical, ref["results"]))
            mine = list(map(kernel.canonical, task.results))
            for m in mine:
                if m in pool:
                    pool.remove(m)
                else:
                    task.diverged = True
                    verdicts.append(kernel.verdict("C03.R1", f"task {task.tid} of query {task.qi} produced a result the isolated evaluation does not produce: {value}", **features_for(task, "extra")))
                    return
            return
        if i >= len(ref["results"]) and ref["end"] in ("cap", "fuse"):
            # the reference was cut off by the harness (result cap / event fuse), not by the engine: nothing to compare with
            return
        if i >= len(ref["results"]):
            task.diverged = True
            verdicts.append(kernel.verdict("C03.R1", f"task {task.tid} of query {task.qi} produced result #{i} = {value} but the isolated evaluation ends after {len(ref['results'])} results ({ref['end']})", **features_for(task, "extra")))
        elif ref["results"][i] != value:
            task.diverged = True
            kind = "reordered" if kernel.canonical(value) in map(kernel.canonical, ref["results"]) else "extra"
            verdicts.append(kernel.verdict("C03.R2" if kind == "reordered" else "C03.R1", f"task {task.tid} of query {task.qi}: result #{i} is {value}, isolated evaluation gives {ref['results'][i]}", **features_for(task, kind)))

    def check_end(task: Task, end: str):
        ref = refs[task.qi]
        if task.diverged or ref.get("unreliable"):
            return
        n, rn = len(task.results), len(ref["results"])
        if ref["end"] in ("cap", "fuse"):
            return
        if end == "stop":
            if ref["end"] == "stop":
                if n < rn:
                    task.diverged = True
                    verdicts.append(kernel.verdict("C03.R1", f"task {task.tid} of query {task.qi} ended after {n} results, isolated evaluation gives {rn}", **features_for(task, "missing")))
            else:
                task.diverged = True
                verdicts.append(kernel.verdict("C03.R3", f"task {task.tid} of query {task.qi} ended normally after {n} results, isolated evaluation raises {ref['end']} after {rn}", **features_for(task, "missing-exception")))
        else:
            if ref["end"] == end and n == rn:
                return
            task.diverged = True
            verdicts.append(kernel.verdict("C03.R3", f"task {task.tid} of query {task.qi} raised {end} after {n} results, isolated evaluation: {ref['end']} after {rn}", **features_for(task, end.replace("exc:", "exception:"))))

    step_clock = [0]
    held_results = []
    executing = []  # tasks whose generator is currently running (a generator cannot be re-entered)

    def step(task: Task, preempt=None) -> bool:
        """
        One next(); returns False when the task cannot be stepped any more.
        preempt = [[k, [ops...]], ...]: when the k-th user-code event of this step fires, the nested ops (steps of
        OTHER tasks) run before the event returns - what happens when a property or predicate itself runs a query.
        """
        if task.state not in ("new", "live") or task in executing:
            return False
        if task.state == "new":
            task.state = "live"
            task.before = set(evaluated_before)
            evaluated_before.add(task.qi)
        note_overlap(task)
        step_clock[0] += 1
        task.step_intervals.append([step_clock[0], None])
        if task.first_step_clock is None:
            task.first_step_clock = step_clock[0]
        outer_phase, outer_events, outer_hook = mon.phase, mon.step_events, mon.hook
        mon.phase = f"STEP{task.tid}"
        mon.step_events = 0
        mon.fuse = fuse
        task.steps += 1
        counters.inc("task_steps")
        if preempt and not executing:
            plan = {int(k): ops for k, ops in preempt}
            seen = [0]

            def hook(kind, detail):
                if kind in ("pull", "pull_end"):
                    # inside a domain stream the shared source generator is executing; a stream that re-enters its
                    # own consumers is not the scenario (a property or predicate running a query is)
                    return
                seen[0] += 1
                nested = plan.pop(seen[0], None)
                if nested:
                    counters.inc("fault.reentrant_preemption")
                    task.reentrant = True
                    mon.hook = None
                    saved = (mon.phase, mon.step_events)
                    try:
                        for nop in nested:
                            if nop[0] in ("step", "drain", "start") and (nop[0] == "start" or nop[1] != task.tid):
                                do_op(nop, nested=True)
                    except Exception as e:  # a defect of the harness must not look like an exception of user code
                        raise HarnessAbort(f"{type(e).__name__}: {e}") from e
                    mon.phase, mon.step_events = saved
                    mon.fuse = fuse
                    mon.hook = hook if plan else None

            mon.hook = hook
        executing.append(task)
        try:
            value = next(task.it)
        except StopIteration:
            task.state = "done"
            log.add("end", task.tid, "stop")
            check_end(task, "stop")
            return False
        except FuseBlown:
            task.state = "failed"
            log.add("end", task.tid, "fuse")
            if not task.diverged:
                task.diverged = True
                verdicts.append(kernel.verdict("C03.livelock", f"task {task.tid} of query {task.qi} consumed more than {fuse} user-code events in one step", **features_for(task, "livelock")))
            return False
        except Exception as e:
            task.state = "failed"
            log.add("end", task.tid, "exc:" + exc_name(e))
            check_end(task, "exc:" + exc_name(e))
            return False
        finally:
            executing.remove(task)
            step_clock[0] += 1
            task.step_intervals[-1][1] = step_clock[0]
            mon.hook = outer_hook
            if executing:
                mon.phase, mon.step_events = outer_phase, outer_events
            else:
                mon.phase = "IDLE"
                mon.fuse = None
        if os.environ.get("SIM_E_HOLD_RESULTS"):
            held_results.append(value)
        value = built.norm(value)
        log.add("res", task.tid, value)
        check_result(task, value)
        return True

    def do_op(op, nested=False):
        nonlocal nontrivial
        kind = op[0]
        if nested:
            for t in tasks.values():
                if t in executing:
                    t.reentrant = True
        if kind == "start":
            _, tid, qi = op
            if tid in tasks or qi >= nq or scenario["queries"][qi].get("q") == "the":
                counters.inc("ops_skipped")
                return
            mon.phase = "CALL"
            try:
                it = built.queries[qi].evaluate()
            except Exception as e:
                log.add("start-exc", tid, exc_name(e))
                return
            finally:
                mon.phase = "IDLE"
            tasks[tid] = Task(tid, qi, it)
            if qi in evaluated_before:
                nontrivial = True
                counters.inc("fault.reevaluation")
            log.add("start", tid, qi)
            counters.inc("op.start")
        elif kind in ("step", "drain"):
            t = tasks.get(op[1])
            if t is None or t.state not in ("new", "live"):
                counters.inc("ops_skipped")
                return
            counters.inc("op." + kind)
            if nested:
                t.reentrant = True
            if kind == "step":
                step(t, op[2] if len(op) > 2 else None)
            else:
                n = 0
                while step(t) and n < STEP_CAP:
                    n += 1
        elif kind == "close":
            t = tasks.get(op[1])
            if t is None or t.state not in ("new", "live"):
                counters.inc("ops_skipped")
                return
            mon.phase = "CLOSE"
            try:
                t.it.close()
            except Exception as e:
                log.add("close-exc", t.tid, exc_name(e))
            mon.phase = "IDLE"
            if t.state == "live":
                counters.inc("fault.abandon_by_close")
            t.state = "closed"
            log.add("close", t.tid)
        elif kind in ("drop", "dropcycle"):
            t = tasks.get(op[1])
            if t is None or t.state not in ("new", "live"):
                counters.inc("ops_skipped")
                return
            was_live = t.state == "live"
            if kind == "dropcycle":
                box = [t.it]
                box.append(box)
                cycles.append(len(cycles))
                del box
                if was_live:
                    counters.inc("fault.abandon_in_cycle")
            elif was_live:
                counters.inc("fault.abandon_by_drop")
            mon.phase = "DROP"
            t.it = None
            mon.phase = "IDLE"
            t.state = "dropped"
            log.add(kind, t.tid)
        elif kind == "gc":
            mon.phase = "GC"
            gc.collect()
            mon.phase = "IDLE"
            counters.inc("fault.gc")
            log.add("gc")
        elif kind == "the":
            qi = op[1]
            if qi >= nq or scenario["queries"][qi].get("q") != "the":
                counters.inc("ops_skipped")
                return
            counters.inc("op.the")
            if qi in evaluated_before:
                nontrivial = True
            evaluated_before.add(qi)
            # an atomic evaluation is an evaluation too: it overlaps every task that is suspended right now
            pseudo = Task(-1 - len([t for t in tasks if t < 0]), qi, None)
            pseudo.state = "done"
            pseudo.overlaps = {t.tid for t in live_tasks()}
            tasks[pseudo.tid] = pseudo
            for t in live_tasks():
                t.overlaps.add(pseudo.tid)
            for o in live_tasks():
                if SHARE_RANK[sharing_between(scenario, qi, o.qi)] >= 2:
                    nontrivial = True
            mon.phase = "THE"
            mon.step_events = 0
            mon.fuse = fuse
            got, end = [], "stop"
            try:
                got.append(built.norm(built.queries[qi].evaluate()))
            except FuseBlown:
                end = "fuse"
            except Exception as e:
                end = "exc:" + exc_name(e)
            mon.phase = "IDLE"
            mon.fuse = None
            log.add("the", qi, got, end)
            ref = refs[qi]
            if not ref.get("unreliable") and ref["end"] not in ("fuse", "cap"):
                if (got, end) != (ref["results"], ref["end"]):
                    f = {
                        "task": pseudo.tid,
                        "shared_node_overlap": any(query_shared_ids(scenario["queries"][qi], scenario) & query_shared_ids(scenario["queries"][tasks[o].qi], scenario) for o in pseudo.overlaps),
                        "query": qi,
                        "rule_query": False,
                        "overlap": bool(pseudo.overlaps),
                        "shares": max((sharing_between(scenario, qi, tasks[o].qi) for o in pseudo.overlaps), key=lambda s: SHARE_RANK[s], default="none"),
                        "same_query_overlap": False,
                        "domain_kinds": [],
                        "failure": "the",
                    }
                    verdicts.append(kernel.verdict("C03.R4", f"the() on query {qi} gave {got}/{end}, in isolation {ref['results']}/{ref['end']}", **f))
        else:
            counters.inc("ops_skipped")

    for op in scenario["ops"]:
        do_op(op)

    # the set of evaluations that were live together with a victim is only complete at the end of the run
    for v in verdicts:
        t = tasks.get(v["features"].get("task"))
        if t is not None:
            v["features"]["same_query_overlap_tasks"] = sorted(o for o in t.overlaps if tasks[o].qi == t.qi)
            v["features"]["same_query_overlap"] = bool(v["features"]["same_query_overlap_tasks"]) or v["features"].get("same_query_overlap", False)
    counters.inc("user_events", mon.seq)
    if max_share != "none":
        counters.inc("probe.overlap_" + max_share)
    if any(d["kind"] == "gen" for d in scenario["domains"]) and nontrivial:
        counters.inc("probe.nontrivial_with_generator_domain")
    if any(q.get("rule") for q in scenario["queries"]) and nontrivial:
        counters.inc("probe.nontrivial_with_rule_query")
    shape = kernel.short_hash([_shape_of(scenario), [[o[0]] + list(o[1:]) for o in scenario["ops"]]])
    return _result(log, counters, verdicts, nontrivial, shape)


def _shape_of(scenario: Dict):
    def strip(e):
        if isinstance(e, list):
            if e and e[0] == "lit":
                return ["lit"]
            return [strip(x) for x in e]
        if isinstance(e, dict):
            return {k: strip(v) for k, v in e.items()}
        return e

    return [
        [d["kind"] for d in scenario["domains"]],
        [v["dom"] for v in scenario["vars"]],
        strip(scenario["queries"]),
        strip(scenario.get("shared", [])),
    ]


def _result(log, counters, verdicts, nontrivial, shape, note=None):
    counters.inc("runs")
    if note:
        counters.inc("note." + note)
    return {
        "verdicts": verdicts,
        "digest": log.digest(),
        "counters": dict(counters),
        "nontrivial": bool(nontrivial),
        "shape": shape,
    }


# --------------------------------------------------------------------------- generation


def generate(rng, cfg: Dict) -> Dict:
    from . import eval_gen, lazy_rules

    if cfg.get("property") == "C10":
        return lazy_rules.generate(rng, cfg)
    return eval_gen.generate(rng, cfg)


# --------------------------------------------------------------------------- triage helpers


def _family(rule: str) -> str:
    return "results" if rule in ("C03.R1", "C03.R2") else rule


def same_class(a: Dict, b: Dict) -> bool:
    """Do two verdicts belong to the same violation class (used while minimising)?"""
    if _family(a["rule"]) != _family(b["rule"]):
        return False
    fa, fb = a["features"], b["features"]
    if a["rule"] == "C03.R3" and fa.get("failure") != fb.get("failure"):
        return False
    keys = ("rule_query", "same_query_overlap", "same_query_disturbed", "shared_node_overlap", "reentrant", "overlap", "phase", "via")
    return all(fa.get(k) == fb.get(k) for k in keys)


def same_target(a: Dict, b: Dict) -> bool:
    return _family(a["rule"]) == _family(b["rule"]) and a["features"].get("task") == b["features"].get("task") and a["features"].get("query") == b["features"].get("query")


def neutralise(scenario: Dict, name: str, verdict: Dict) -> Optional[Dict]:
    """
    Remove the trigger of an open finding from a scenario and nothing else.
    serialise_same_query: delete every other evaluation of the target task's query
    whose lifetime can overlap the target's.
    """
    if name == "unshare_expressions":
        # every query gets its own copy of each shared condition node / sub-query object
        import copy as _copy

        out = _copy.deepcopy(scenario)

        def expand(e):
            if isinstance(e, list):
                if e and e[0] == "shared" and e[1] < len(scenario.get("shared", [])):
                    return expand(_copy.deepcopy(scenario["shared"][e[1]]))
                if e and e[0] == "subq" and e[1] < len(scenario.get("subqueries", [])):
                    out.setdefault("subqueries", []).append(_copy.deepcopy(scenario["subqueries"][e[1]]))
                    return ["subq", len(out["subqueries"]) - 1]
                return [expand(x) for x in e]
            if isinstance(e, dict):
                return {k: expand(v) for k, v in e.items()}
            return e

        out["queries"] = [expand(q) for q in scenario["queries"]]
        return out
    if name != "serialise_same_query":
        return None
    target = verdict["features"].get("task")
    ops = scenario["ops"]
    # the run itself recorded which evaluations of the same query were live together with the victim
    remove = set(verdict["features"].get("same_query_overlap_tasks") or [])
    remove.discard(target)
    if not remove:
        return None

    def strip(op_list):
        out = []
        for op in op_list:
            if op[0] in ("start", "step", "drain", "close", "drop", "dropcycle") and op[1] in remove:
                continue
            if op[0] == "step" and len(op) > 2 and op[2]:
                op = [op[0], op[1], [[k, strip(nested)] for k, nested in op[2]]]
            out.append(op)
        return out

    out = dict(scenario)
    out["ops"] = strip(ops)
    return out


def _refs_in(e, tag, out):
    if isinstance(e, list):
        if e and e[0] == tag and len(e) > 1 and isinstance(e[1], int):
            out.add(e[1])
        for x in e:
            _refs_in(x, tag, out)
    elif isinstance(e, dict):
        for x in e.values():
            _refs_in(x, tag, out)
    return out


def _replace_paths(e):
    """Yield (simpler expression) alternatives for a condition: its children."""
    if isinstance(e, list) and e and e[0] in ("and", "or"):
        for child in e[1:]:
            yield child
        if len(e) > 3:
            for i in range(1, len(e)):
                yield e[:i] + e[i + 1:]
    if isinstance(e, list) and e and e[0] == "not":
        yield e[1]


def shrink_candidates(sc: Dict):
    import copy as _copy

    nq = len(sc["queries"])
    used_q = {op[2] for op in sc["ops"] if op[0] == "start"} | {op[1] for op in sc["ops"] if op[0] == "the"}
    # 1. drop queries no op refers to (renumbering the ops)
    for qi in range(nq - 1, -1, -1):
        if qi not in used_q and nq > 1:
            c = _copy.deepcopy(sc)
            del c["queries"][qi]
            for op in c["ops"]:
                if op[0] == "start" and op[2] > qi:
                    op[2] -= 1
                if op[0] == "the" and op[1] > qi:
                    op[1] -= 1
            yield c
    # 2. simplify queries
    for qi, q in enumerate(sc["queries"]):
        for ci in range(len(q.get("conds", []))):
            c = _copy.deepcopy(sc)
            del c["queries"][qi]["conds"][ci]
            yield c
            for alt in _replace_paths(q["conds"][ci]):
                c = _copy.deepcopy(sc)
                c["queries"][qi]["conds"][ci] = _copy.deepcopy(alt)
                yield c
            if isinstance(q["conds"][ci], list) and q["conds"][ci] and q["conds"][ci][0] == "shared":
                k = q["conds"][ci][1]
                if k < len(sc.get("shared", [])):
                    c = _copy.deepcopy(sc)
                    c["queries"][qi]["conds"][ci] = _copy.deepcopy(sc["shared"][k])
                    yield c
        if q.get("quant"):
            c = _copy.deepcopy(sc)
            c["queries"][qi].pop("quant")
            yield c
        if q.get("shape") == "set_of" and len(q.get("sel", [])) > 1:
            for si in range(len(q["sel"])):
                c = _copy.deepcopy(sc)
                del c["queries"][qi]["sel"][si]
                yield c
        rule = q.get("rule")
        if rule and rule.get("early") is not None:
            c = _copy.deepcopy(sc)
            c["queries"][qi]["rule"].pop("early")
            yield c
        if rule:
            def branch_lists(r, path):
                yield path
                for bi, b in enumerate(r.get("branches", [])):
                    yield from branch_lists(b, path + [bi])
            for path in list(branch_lists(rule, [])):
                node = rule
                for p in path:
                    node = node["branches"][p]
                for bi in range(len(node.get("branches", []))):
                    c = _copy.deepcopy(sc)
                    n2 = c["queries"][qi]["rule"]
                    for p in path:
                        n2 = n2["branches"][p]
                    del n2["branches"][bi]
                    yield c
                concl = node["base"] if node is rule else node["concl"]
                if len(concl["kw"]) > 1:
                    for k in list(concl["kw"]):
                        c = _copy.deepcopy(sc)
                        n2 = c["queries"][qi]["rule"]
                        for p in path:
                            n2 = n2["branches"][p]
                        (n2["base"] if not path else n2["concl"])["kw"].pop(k)
                        yield c
    # 3. domains
    for di, d in enumerate(sc["domains"]):
        for ii in range(len(d["items"])):
            c = _copy.deepcopy(sc)
            del c["domains"][di]["items"][ii]
            yield c
        if d["kind"] == "gen":
            c = _copy.deepcopy(sc)
            c["domains"][di]["kind"] = "list"
            yield c
    # 4. trailing shared / subqueries / vars nobody refers to
    for key, tag in (("shared", "shared"), ("subqueries", "subq")):
        lst = sc.get(key, [])
        if lst:
            refs = _refs_in([sc["queries"], sc.get("shared", []), sc.get("subqueries", [])], tag, set())
            if len(lst) - 1 not in refs:
                c = _copy.deepcopy(sc)
                c[key].pop()
                yield c
    if sc["vars"]:
        refs = _refs_in([sc["queries"], sc.get("shared", []), sc.get("subqueries", [])], "var", set())
        if len(sc["vars"]) - 1 not in refs and len(sc["vars"]) > 1:
            c = _copy.deepcopy(sc)
            c["vars"].pop()
            yield c
    # 5. literals towards 0, refs to None
    for di, d in enumerate(sc["domains"]):
        for ii, it in enumerate(d["items"]):
            if it.get("ref") is not None:
                c = _copy.deepcopy(sc)
                c["domains"][di]["items"][ii]["ref"] = None
                yield c
            if it.get("xs"):
                c = _copy.deepcopy(sc)
                c["domains"][di]["items"][ii]["xs"] = []
                yield c
