"""
Sim-O: the ontology assertion simulator (properties C15 and C16).

Facts are messages: the scheduler decides their order, duplicates them, routes each
through a write path and interleaves gc / sweep events and unrelated creations.
The oracle is a reference closure computed from the plain ontology table
(sim/worlds/oworld.py ONTOLOGY) - it never touches krrood's class diagram.
"""
from __future__ import annotations

import gc
from typing import Dict, List, Optional, Set, Tuple

from .. import kernel
from ..kernel import Chooser
from ..worlds import oworld

from krrood.entity_query_language.symbol_graph import SymbolGraph

PROPS = oworld.ONTOLOGY["properties"]
F2P = oworld.FIELD_TO_PROPERTY
RELATABLE = [(c, PROPS[P]["field"], PROPS[P]["range"]) for c, ps in oworld.CLASS_PROPERTIES.items() for P in ps]


# ------------------------------------------------------------------------ reference model


def closure(facts: Set[Tuple[int, str, int]], cls_of: Dict[int, str], taker_of: Dict[int, int]) -> Set[Tuple[int, str, int]]:
    """Least fixpoint of sub-property, inverse and transitivity rules over (source, property, target) facts."""
    out = set(facts)
    frontier = list(out)

    def held_by(cls_name, descriptor):
        """The property of class `cls_name` whose field is managed by exactly this descriptor class."""
        for name in oworld.CLASS_PROPERTIES[cls_name]:
            if PROPS[name]["descriptor"] == descriptor:
                return name
        return None

    while frontier:
        s, P, t = frontier.pop()
        p = PROPS[P]
        new = []
        for super_descriptor in p["supers"]:
            on_source = held_by(cls_of[s], super_descriptor)
            if on_source:
                new.append((s, on_source, t))
            if taker_of.get(s) is not None:
                on_taker = held_by(cls_of[taker_of[s]], super_descriptor)
                if on_taker:
                    new.append((taker_of[s], on_taker, t))
        if p["inverse"]:
            on_target = held_by(cls_of[t], p["inverse"])
            if on_target:
                new.append((t, on_target, s))
            elif taker_of.get(t) is not None:
                on_taker = held_by(cls_of[taker_of[t]], p["inverse"])
                if on_taker:
                    new.append((taker_of[t], on_taker, s))
        if p["transitive"]:
            for (s2, P2, t2) in list(out):
                if P2 != P:
                    continue
                if s2 == t:
                    new.append((s, P, t2))
                if t2 == s:
                    new.append((s2, P, t))
        for f in new:
            if f not in out:
                out.add(f)
                frontier.append(f)
    return out


# ------------------------------------------------------------------------ world


class Population:
    def __init__(self, salt: int):
        oworld.SALT[0] = salt
        oworld.fresh_symbol_graph()
        self.objs: Dict[int, object] = {}
        self.cls_of: Dict[int, str] = {}
        self.taker_of: Dict[int, int] = {}

    def create(self, desc, **kwargs):
        cls_name, serial = desc[0], desc[1]
        if serial in self.objs:
            return None
        if cls_name in ("Boss", "Dean"):
            taker = desc[2]
            if taker not in self.objs or not oworld.is_a(self.cls_of[taker], "Human"):
                return None
            obj = oworld.ONTOLOGY_CLASSES[cls_name](self.objs[taker], serial, **kwargs)
            self.taker_of[serial] = taker
        else:
            obj = oworld.ONTOLOGY_CLASSES[cls_name](serial, **kwargs)
        self.objs[serial] = obj
        self.cls_of[serial] = cls_name
        return obj

    def graph_facts(self) -> List[Tuple]:
        out = []
        for r in SymbolGraph().relations():
            s, t = r.source.instance, r.target.instance
            sn = getattr(s, "serial", None) if s is not None else "dead"
            tn = getattr(t, "serial", None) if t is not None else "dead"
            prop = F2P.get((type(s).__name__, r.wrapped_field.public_name), r.wrapped_field.public_name) if s is not None else "?"
            out.append((sn, prop, tn))
        return out

    def field_values(self, serial: int, field: str):
        v = getattr(self.objs[serial], field)
        kind = PROPS[F2P[(self.cls_of[serial], field)]]["kind"]
        if kind == "single":
            return None if v is None else getattr(v, "serial", repr(v))
        return [getattr(x, "serial", repr(x)) for x in v]


def write(pop: Population, s: int, field: str, t: int, path: str, counters) -> str:
    """Deliver the fact (s, field, t) through a monotone write path; returns the path actually used."""
    so, to = pop.objs[s], pop.objs[t]
    kind = PROPS[F2P[(pop.cls_of[s], field)]]["kind"]
    if kind == "single":
        setattr(so, field, to)
        used = "assign"
    elif kind == "list":
        cur = getattr(so, field)
        if path == "assign_container" and len(cur) == 0:
            setattr(so, field, [to])
            used = path
        elif path == "extend":
            cur.extend([to])
            used = path
        elif path == "insert0":
            cur.insert(0, to)
            used = path
        elif path == "iadd":
            exec(f"o.{field} += [x]", {"o": so, "x": to})
            used = path
        else:
            cur.append(to)
            used = "append"
    else:
        cur = getattr(so, field)
        if path == "assign_container" and len(cur) == 0:
            setattr(so, field, {to})
            used = path
        elif path == "update":
            cur.update({to})
            used = path
        elif path == "ior":
            exec(f"o.{field} |= {{x}}", {"o": so, "x": to})
            used = path
        else:
            cur.add(to)
            used = "add"
    counters.inc("fault.write_path." + used)
    return used


def write_batch(pop: Population, s: int, field: str, ts: List[int], path: str, counters) -> str:
    """Deliver several facts about one collection field by ONE write; monotone (nothing already there is removed)."""
    so = pop.objs[s]
    values = [pop.objs[t] for t in ts]
    kind = PROPS[F2P[(pop.cls_of[s], field)]]["kind"]
    cur = getattr(so, field)
    if kind == "list":
        if path == "assign_container" and len(cur) == 0:
            setattr(so, field, list(values))
            used = "assign_container"
        elif path == "iadd":
            exec(f"o.{field} += xs", {"o": so, "xs": list(values)})
            used = "iadd"
        else:
            cur.extend(values)
            used = "extend"
    else:
        if path == "assign_container" and len(cur) == 0:
            setattr(so, field, set(values))
            used = "assign_container"
        elif path == "ior":
            exec(f"o.{field} |= xs", {"o": so, "xs": set(values)})
            used = "ior"
        else:
            cur.update(values)
            used = "update"
    counters.inc("fault.write_path.batch_" + used)
    return used


def result(log, counters, verdicts, nontrivial, shape):
    counters.inc("runs")
    return {"verdicts": verdicts, "digest": log.digest(), "counters": dict(counters), "nontrivial": bool(nontrivial), "shape": shape}


# ------------------------------------------------------------------------ dispatch


def generate(rng, cfg: Dict) -> Dict:
    if cfg.get("property") == "C16":
        from . import onto_c16

        return onto_c16.generate(rng, cfg)
    from . import onto_c15

    return onto_c15.generate(rng, cfg)


def execute(scenario: Dict) -> Dict:
    if scenario.get("property") == "C16":
        from . import onto_c16

        return onto_c16.execute(scenario)
    from . import onto_c15

    return onto_c15.execute(scenario)


def same_class(a: Dict, b: Dict) -> bool:
    if a["rule"] != b["rule"]:
        return False
    keys = ("kind", "op", "property_name", "aspect")
    return all(a["features"].get(k) == b["features"].get(k) for k in keys)


def same_target(a: Dict, b: Dict) -> bool:
    return same_class(a, b)


def neutralise(scenario, name, verdict):
    return None


DDMIN_KEYS = ["ops", "facts_unused"]


def shrink_candidates(sc: Dict):
    import copy

    # drop population members nobody refers to (from the end, Boss before its Human)
    pop = sc.get("population", [])
    used = set()
    for op in sc.get("ops", []):
        if op[0] == "deliver" and op[1] < len(sc.get("facts", [])):
            f = sc["facts"][op[1]]
            used.update([f[0], f[2]])
        if op[0] == "deliver_batch":
            for i in op[1]:
                if i < len(sc.get("facts", [])):
                    used.update([sc["facts"][i][0], sc["facts"][i][2]])
        if op[0] in ("w",):
            used.update(x for x in op[2:] if isinstance(x, int))
    for p in pop:
        if p[0] in ("Boss", "Dean"):
            used.add(p[2]) if p[1] in used else None
    for i in range(len(pop) - 1, -1, -1):
        if pop[i][1] not in used and not any(q[0] in ("Boss", "Dean") and q[2] == pop[i][1] for q in pop):
            c = copy.deepcopy(sc)
            del c["population"][i]
            yield c
    if sc.get("second_order"):
        c = copy.deepcopy(sc)
        c["second_order"] = None
        yield c
