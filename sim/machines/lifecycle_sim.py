"""
Sim-L: the lifecycle / garbage-collection simulator (properties C13, C14, C20).

The cyclic GC is disabled for the whole run; when an unreachable cycle dies is an
op.  The program's references live in a handle table the machine owns; a weak
reference census of everything ever created is the ground truth.
"""
from __future__ import annotations

import gc
import weakref
from typing import Any, Dict, List, Optional

from .. import kernel, procs
from ..kernel import Chooser
from ..worlds import oworld

from krrood.entity_query_language.entity import let, entity
from krrood.entity_query_language.quantify_entity import an
from krrood.entity_query_language.symbol_graph import SymbolGraph

FIELD_KIND = {key: oworld.ONTOLOGY["properties"][name]["kind"] for key, name in oworld.FIELD_TO_PROPERTY.items()}
ALL_CLASSES = dict(oworld.HIERARCHY, **oworld.ONTOLOGY_CLASSES)


class World:
    """Handle table + census; interprets the ops shared by the three properties."""

    def __init__(self, salt: int, log: kernel.EventLog, counters: kernel.Counters):
        oworld.SALT[0] = salt
        self.log = log
        self.counters = counters
        self.handles: Dict[int, Any] = {}
        self.census: List[Dict] = []  # {serial, cls, ref, epoch, seq, dropped_at}
        self.by_serial: Dict[int, Dict] = {}
        self.epoch = 0
        self.seq = 0
        self.graph_ids = set()
        oworld.fresh_symbol_graph()

    # -- creation / destruction ----------------------------------------------------
    def create(self, h: int, cls_name: str, serial: int, taker: Optional[int] = None):
        if h in self.handles or serial in self.by_serial:
            return None
        cls = ALL_CLASSES[cls_name]
        if cls_name in ("Boss", "Dean"):
            if taker not in self.handles or not isinstance(self.handles[taker], oworld.Human):
                return None
            obj = cls(self.handles[taker], serial)
        else:
            obj = cls(serial)
        self.seq += 1
        rec = {"serial": serial, "cls": cls_name, "ref": weakref.ref(obj), "epoch": self.epoch, "seq": self.seq, "dropped": False}
        self.census.append(rec)
        self.by_serial[serial] = rec
        self.handles[h] = obj
        self.counters.inc("op.create")
        return obj

    def drop(self, h: int) -> bool:
        obj = self.handles.pop(h, None)
        if obj is None:
            return False
        self.by_serial[obj.serial]["dropped"] = True
        self.counters.inc("fault.reference_drop")
        del obj
        return True

    def tie(self, h1: int, h2: int) -> bool:
        a, b = self.handles.get(h1), self.handles.get(h2)
        if a is None or b is None or a is b:
            return False
        a._tie = b
        b._tie = a
        self.counters.inc("op.tie")
        return True

    def gc(self):
        self.counters.inc("fault.gc")
        return gc.collect()

    def sweep(self):
        self.counters.inc("fault.sweep")
        SymbolGraph().remove_dead_instances()

    def clear(self):
        self.counters.inc("fault.graph_clear")
        SymbolGraph().clear()
        SymbolGraph()
        self.epoch += 1

    def alive(self, serial: int) -> bool:
        rec = self.by_serial.get(serial)
        return rec is not None and rec["ref"]() is not None

    # -- relations -------------------------------------------------------------------
    def relate(self, how: str, hs: int, field: str, ht: int) -> bool:
        s, t = self.handles.get(hs), self.handles.get(ht)
        if s is None or t is None:
            return False
        cls_name = type(s).__name__
        kind = FIELD_KIND.get((cls_name, field))
        if kind is None:
            return False
        prop = oworld.ONTOLOGY["properties"][oworld.FIELD_TO_PROPERTY[(cls_name, field)]]
        if not oworld.is_a(type(t).__name__, prop["range"]):
            return False
        self.counters.inc("op.relate." + how)
        if how == "direct":
            from krrood.ontomatic.property_descriptor.property_descriptor_relation import PropertyDescriptorRelation

            descriptor = getattr(type(s), field)
            PropertyDescriptorRelation(s, t, descriptor.wrapped_field).add_to_graph()
        elif kind == "single":
            setattr(s, field, t)
        elif kind == "list":
            getattr(s, field).append(t)
        else:
            getattr(s, field).add(t)
        return True


def norm_fields(obj) -> Dict[str, Any]:
    out = {}
    cls_name = type(obj).__name__
    for f in oworld.ONTOLOGY["classes"].get(cls_name, {}).get("fields", []):
        v = getattr(obj, f)
        kind = FIELD_KIND[(cls_name, f)]
        if kind == "single":
            out[f] = _ser(v)
        else:
            out[f] = sorted((_ser(x) for x in v), key=lambda z: (z is None, z if isinstance(z, int) else -1))
    return out


def _ser(v):
    if v is None:
        return None
    if isinstance(v, weakref.ref):
        v = v()
        return None if v is None else ["weak", getattr(v, "serial", "?")]
    return getattr(v, "serial", repr(type(v).__name__))


def graph_relations() -> List[tuple]:
    rels = []
    for r in SymbolGraph().relations():
        s, t = r.source.instance, r.target.instance
        rels.append((_ser(s) if s is not None else "dead", r.wrapped_field.public_name, _ser(t) if t is not None else "dead", bool(r.inferred)))
    return rels


def result(log, counters, verdicts, nontrivial, shape, note=None):
    counters.inc("runs")
    if note:
        counters.inc("note." + note)
    return {"verdicts": verdicts, "digest": log.digest(), "counters": dict(counters), "nontrivial": bool(nontrivial), "shape": shape}


# =============================================================================== dispatch


def generate(rng, cfg: Dict) -> Dict:
    prop = cfg.get("property")
    if prop == "C14":
        from . import life_c14

        return life_c14.generate(rng, cfg)
    if prop == "C13":
        from . import life_c13

        return life_c13.generate(rng, cfg)
    from . import life_c20

    return life_c20.generate(rng, cfg)


def execute(scenario: Dict) -> Dict:
    prop = scenario.get("property")
    if prop == "C14":
        from . import life_c14

        return life_c14.execute(scenario)
    if prop == "C13":
        from . import life_c13

        return life_c13.execute(scenario)
    from . import life_c20

    return life_c20.execute(scenario)


def same_class(a: Dict, b: Dict) -> bool:
    if a["rule"] != b["rule"]:
        return False
    keys = ("retained_via", "field", "requery_or_predeclared", "structure", "exception")
    return all(a["features"].get(k) == b["features"].get(k) for k in keys)


def same_target(a: Dict, b: Dict) -> bool:
    return same_class(a, b)


def neutralise(scenario: Dict, name: str, verdict: Dict) -> Optional[Dict]:
    return None


DDMIN_KEYS = ["ops", "prefix", "suffix"]


def shrink_candidates(sc: Dict):
    return iter(())
