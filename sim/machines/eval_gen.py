"""
Scenario generator for Sim-E (C03): worlds, queries over the public EQL vocabulary
with explicit sharing, and schedules (the op list) in several swarm shapes.
Pure function of the PRNG handed in.
"""
from __future__ import annotations

from typing import Dict, List

from ..kernel import Chooser

CMP_OPS = ["==", "!=", "<", "<=", ">", ">="]


class Gen:
    def __init__(self, rng, cfg: Dict):
        self.c = Chooser(rng)
        self.cfg = cfg
        self.sc: Dict = {}
        self.n_sub = 0
        # a node shared with another tree must not become the anchor of a nested `with` block: re-parenting it
        # makes the primary-parent chain cyclic and the construction itself never returns (in isolation too)
        self.in_rule_branch = False

    # ------------------------------------------------------------------ world
    def world(self):
        c = self.c
        serial = 0
        domains = []
        n_dom = c.weighted([(1, 3), (2, 4), (3, 2)])
        gen_p = c.pick([0.0, 0.3, 0.5, 0.8])
        for d in range(n_dom):
            kind = "gen" if c.chance(gen_p) else "list"
            n_items = c.weighted([(0, 1), (1, 2), (2, 4), (3, 4), (4, 3), (5, 2)])
            items = []
            for _ in range(n_items):
                t = c.weighted([("A", 6), ("B", 2), ("A2", 1)])
                xs = [c.int(0, 3) for _ in range(c.weighted([(0, 1), (1, 3), (2, 3), (3, 1)]))]
                items.append({"s": serial, "t": t, "a": c.int(0, 3), "b": c.int(0, 2), "xs": xs, "ref": None})
                serial += 1
            domains.append({"id": d, "kind": kind, "items": items})
        all_serials = [it["s"] for d in domains for it in d["items"]]
        for d in domains:
            for it in d["items"]:
                if all_serials and not c.chance(0.08):
                    it["ref"] = c.pick(all_serials)
        n_vars = c.weighted([(1, 2), (2, 5), (3, 3)])
        vars_ = []
        for i in range(n_vars):
            vars_.append({"name": f"v{i}", "t": c.weighted([("A", 7), ("B", 2), ("A2", 1)]), "dom": c.int(0, n_dom - 1)})
        self.sc.update({"domains": domains, "vars": vars_, "salt": c.int(0, 1 << 30)})

    # ------------------------------------------------------------------ expressions
    def var(self, pool):
        return ["var", self.c.pick(pool)]

    def atom(self, pool: List[int], depth: int):
        c = self.c
        v = self.var(pool)
        w = self.var(pool)
        two = len(pool) >= 2
        if two:
            others = [x for x in pool if x != v[1]]
            w = ["var", c.pick(others)]
        choices = [
            ("cmp_lit", 6),
            ("chain", 2),
            ("call", 1.5),
            ("idx", 1),
            ("in_lit", 2),
            ("contains_lit", 2),
            ("pred_big", 1),
            ("flatten", 1),
        ]
        if two:
            choices += [
                ("join", 6),
                ("contains_attr", 1.5),
                ("var_eq", 1.5),
                ("pred_near", 1.5),
                ("fn", 1.5),
            ]
        if depth > 0 and self.cfg.get("quantified", True):
            qvars = list(range(len(self.sc["vars"])))
            if len(qvars) >= 2:
                choices += [("exists", 1.2), ("forall", 1.2)]
            if self.cfg.get("subqueries", True):
                choices += [("subq", 0.7)]
        choices += [("truthy", 1.2), ("item_eq", 1.0)]
        kind = c.weighted(choices)
        lit = c.int(0, 3)
        op = c.pick(CMP_OPS)
        shared_attrs = [] if self.in_rule_branch else [k for k, sk in enumerate(self.sc.get("shared_kinds", [])) if sk == "attr"]
        if kind == "truthy":
            # a bare attribute used as a condition (true when the attribute value is truthy)
            if shared_attrs and c.chance(0.6):
                return ["shared", c.pick(shared_attrs)]
            return ["attr", v, c.pick(["a", "b"])]
        if kind == "item_eq":
            serials = [it["s"] for d in self.sc["domains"] for it in d["items"]]
            if serials:
                return ["cmp", c.pick(["==", "!="]), ["attr", v, "ref"], ["item", c.pick(serials)]]
            kind = "cmp_lit"
        if kind == "cmp_lit":
            if shared_attrs and c.chance(0.5):
                return ["cmp", op, ["shared", c.pick(shared_attrs)], ["lit", lit]]
            return ["cmp", op, ["attr", v, c.pick(["a", "b"])], ["lit", lit]]
        if kind == "join":
            return ["cmp", c.weighted([("==", 4), ("!=", 1), ("<", 1), (">=", 1)]), ["attr", v, c.pick(["a", "b"])], ["attr", w, c.pick(["a", "b"])]]
        if kind == "chain":
            return ["cmp", op, ["attr", ["attr", v, "ref"], "a"], ["lit", lit]]
        if kind == "call":
            return ["cmp", op, ["call", v, "m", [c.int(0, 2)]], ["lit", lit]]
        if kind == "idx":
            return ["cmp", op, ["idx", ["attr", v, "xs"], 0], ["lit", lit]]
        if kind == "in_lit":
            return ["in", ["attr", v, "a"], ["lit", sorted({c.int(0, 3) for _ in range(c.int(0, 3))})]]
        if kind == "contains_lit":
            return ["contains", ["attr", v, "xs"], ["lit", lit]]
        if kind == "contains_attr":
            return ["contains", ["attr", v, "xs"], ["attr", w, "a"]]
        if kind == "var_eq":
            return ["cmp", c.pick(["==", "!="]), ["attr", v, "ref"], w]
        if kind == "pred_near":
            return ["pred", "Near", {"x": v, "y": w}]
        if kind == "pred_big":
            return ["pred", "Big", {"x": v, "k": c.int(0, 3)}]
        if kind == "fn":
            return ["fn", "same_b", {"x": v, "y": w}]
        if kind == "flatten":
            return ["cmp", op, ["flatten", ["attr", v, "xs"]], ["lit", lit]]
        if kind in ("exists", "forall"):
            qv = ["var", c.pick([x for x in range(len(self.sc["vars"])) if x != v[1]])]
            inner = ["cmp", c.pick(["==", "<=", "!="]), ["attr", v, c.pick(["a", "b"])], ["attr", qv, c.pick(["a", "b"])]]
            return [kind, qv, inner]
        if kind == "subq":
            k = len(self.sc.setdefault("subqueries", []))
            sv = self.var(list(range(len(self.sc["vars"]))))
            sub = {"q": c.weighted([("the", 2), ("an", 1)]), "shape": "entity", "sel": [sv],
                   "conds": [["cmp", c.pick(CMP_OPS), ["attr", sv, "a"], ["lit", c.int(0, 3)]]]}
            self.sc["subqueries"].append(sub)
            return ["cmp", "==", ["attr", v, "ref"], ["subq", k]]
        raise AssertionError(kind)

    def cond(self, pool: List[int], depth: int):
        c = self.c
        if depth <= 0 or c.chance(0.45):
            shared_conds = [k for k, sk in enumerate(self.sc.get("shared_kinds", [])) if sk == "cond"]
            if shared_conds and c.chance(0.5):
                return ["shared", c.pick(shared_conds)]
            return self.atom(pool, depth)
        kind = c.weighted([("and", 3), ("or", 3), ("not", 2)])
        if kind == "not":
            return ["not", self.cond(pool, depth - 1)]
        n = c.weighted([(2, 4), (3, 1)])
        return [kind] + [self.cond(pool, depth - 1) for _ in range(n)]

    # ------------------------------------------------------------------ queries
    def query(self, allow_rule: bool):
        c = self.c
        nv = len(self.sc["vars"])
        pool_size = c.weighted([(1, 3), (2, 4), (3, 2)])
        pool = sorted(c.sample(range(nv), min(pool_size, nv)))
        if allow_rule and c.chance(self.cfg.get("rule_p", 0.3)):
            return self.rule_query(pool)
        n_conds = c.weighted([(0, 1), (1, 5), (2, 3), (3, 1)])
        conds = [self.cond(pool, c.weighted([(0, 3), (1, 4), (2, 2)])) for _ in range(n_conds)]
        is_the = c.chance(0.12)
        shape = c.weighted([("entity", 7), ("set_of", 3)])
        if shape == "entity":
            if c.chance(0.12):
                sel = [["attr", self.var(pool), c.pick(["a", "b", "ref"])]]
            elif c.chance(0.15):
                sel = [self.var(list(range(nv)))]
            else:
                sel = [self.var(pool)]
        else:
            k = c.weighted([(1, 1), (2, 4), (3, 1)])
            base = pool if c.chance(0.8) else list(range(nv))
            sel = [["var", i] for i in c.sample(base, min(k, len(base)))]
        q = {"q": "the" if is_the else "an", "shape": shape, "sel": sel, "conds": conds}
        if not is_the and c.chance(0.12):
            q["quant"] = [c.pick(["atleast", "atmost", "exactly"]), c.int(0, 3)]
        return q

    def conclusion(self, pool):
        c = self.c
        cls = c.pick(["K1", "K2", "K3"])
        if c.chance(0.12):
            return {"cls": cls, "kw": {}}  # a conclusion that uses none of the matched variables
        kw = {"p": self.var(pool)}
        if c.chance(0.6):
            kw["q"] = c.pick([self.var(pool), ["attr", self.var(pool), "a"]])
        return {"cls": cls, "kw": kw}

    def branch(self, pool, depth):
        c = self.c
        kind = c.pick(["refinement", "alternative", "next"])
        self.in_rule_branch = True
        br = {"kind": kind, "conds": [self.atom(pool, 0) for _ in range(c.weighted([(1, 4), (2, 1)]))],
              "concl": self.conclusion(pool), "branches": []}
        self.in_rule_branch = False
        if depth > 0 and c.chance(0.35):
            br["branches"].append(self.branch(pool, depth - 1))
        return br

    def rule_query(self, pool):
        c = self.c
        conds = [self.cond(pool, c.weighted([(0, 4), (1, 2)])) for _ in range(c.weighted([(1, 4), (2, 2)]))]
        # conclusions may only mention variables bound by the base conditions
        bound = sorted(self._vars_of(conds)) or pool
        rule = {"out": c.weighted([("inference", 3), ("let", 1)]), "base": self.conclusion(bound), "branches": []}
        for _ in range(c.weighted([(0, 2), (1, 4), (2, 2)])):
            rule["branches"].append(self.branch(bound, 1))
        if c.chance(self.cfg.get("early_p", 0.2)):
            # the query object is evaluated once (k results, -1: to the end) BEFORE the rules are attached to it
            rule["early"] = c.pick([-1, -1, 0, 1, 2])
        return {"q": "an", "shape": "entity", "sel": [], "conds": conds, "rule": rule}

    def _vars_of(self, e, out=None):
        out = set() if out is None else out
        if isinstance(e, list):
            if e and e[0] == "var":
                out.add(e[1])
            elif e and e[0] == "shared":
                self._vars_of(self.sc["shared"][e[1]], out)
            elif e and e[0] in ("subq",):
                pass
            else:
                for x in e:
                    self._vars_of(x, out)
        elif isinstance(e, dict):
            for x in e.values():
                self._vars_of(x, out)
        return out

    # ------------------------------------------------------------------ schedules
    def schedule(self):
        c = self.c
        qs = self.sc["queries"]
        an_qs = [i for i, q in enumerate(qs) if q["q"] != "the"]
        the_qs = [i for i, q in enumerate(qs) if q["q"] == "the"]
        ops: List[list] = []
        next_tid = [0]

        def start(qi):
            tid = next_tid[0]
            next_tid[0] += 1
            ops.append(["start", tid, qi])
            return tid

        def abandon(tid):
            kind = c.weighted([("close", 3), ("drop", 3), ("dropcycle", 2), ("leave", 2)])
            if kind != "leave":
                ops.append([kind, tid])

        def maybe_the():
            if the_qs and c.chance(0.35):
                ops.append(["the", c.pick(the_qs)])

        def maybe_gc():
            if c.chance(0.2):
                ops.append(["gc"])

        shape = c.weighted([("sequential", 3), ("roundrobin", 3), ("nested", 4), ("abandon_restart", 2), ("random", 3)])
        self.sc["schedule_shape"] = shape
        if not an_qs:
            for _ in range(c.int(1, 3)):
                ops.append(["the", c.pick(the_qs)])
            return ops
        if shape == "sequential":
            for _ in range(c.int(2, 4)):
                t = start(c.pick(an_qs))
                if c.chance(0.6):
                    ops.append(["drain", t])
                else:
                    for _ in range(c.int(0, 3)):
                        ops.append(["step", t])
                    abandon(t)
                maybe_the()
                maybe_gc()
        elif shape == "roundrobin":
            ts = [start(c.pick(an_qs)) for _ in range(c.int(2, 4))]
            for _ in range(c.int(1, 5)):
                for t in ts:
                    if c.chance(0.85):
                        ops.append(["step", t])
                if c.chance(0.2):
                    abandon(c.pick(ts))
                maybe_the()
            for t in c.shuffle(ts):
                if c.chance(0.7):
                    ops.append(["drain", t])
        elif shape == "nested":
            qa = c.pick(an_qs)
            qb = c.pick(an_qs)
            qc = c.pick(an_qs)
            deep = c.chance(0.25)
            outer = start(qa)
            for _ in range(c.int(2, 5)):
                ops.append(["step", outer])
                inner = start(qb)
                if deep:
                    for _ in range(c.int(1, 3)):
                        ops.append(["step", inner])
                        innermost = start(qc)
                        ops.append(["drain", innermost])
                    ops.append(["drain", inner])
                elif c.chance(0.75):
                    ops.append(["drain", inner])
                else:
                    for _ in range(c.int(0, 2)):
                        ops.append(["step", inner])
                    abandon(inner)
                maybe_the()
            if c.chance(0.7):
                ops.append(["drain", outer])
        elif shape == "abandon_restart":
            q = c.pick(an_qs)
            for _ in range(c.int(1, 3)):
                t = start(q)
                for _ in range(c.int(0, 3)):
                    ops.append(["step", t])
                abandon(t)
                maybe_gc()
            t = start(q)
            ops.append(["drain", t])
            if len(an_qs) > 1 and c.chance(0.5):
                t2 = start(c.pick(an_qs))
                ops.append(["drain", t2])
        else:
            live = []
            for _ in range(c.int(6, 30)):
                r = c.rng.random()
                if (not live or r < 0.2) and next_tid[0] < 6:
                    live.append(start(c.pick(an_qs)))
                elif r < 0.7 and live:
                    ops.append(["step", c.pick(live)])
                elif r < 0.8 and live:
                    ops.append(["drain", c.pick(live)])
                elif r < 0.9 and live:
                    t = c.pick(live)
                    abandon(t)
                elif r < 0.95:
                    ops.append(["gc"])
                else:
                    maybe_the()
        return ops[:70]

    def serialise_same_rule_query(self, ops):
        """Swarm knob: never let two evaluations of one rule-query object be live together."""
        qs = self.sc["queries"]
        out = []
        maybe_live = {}
        for op in ops:
            if op[0] == "start" and qs[op[2]].get("rule"):
                for t, q in list(maybe_live.items()):
                    if q == op[2]:
                        out.append(["close", t])
                        del maybe_live[t]
                maybe_live[op[1]] = op[2]
            elif op[0] in ("close", "drop", "dropcycle", "drain"):
                maybe_live.pop(op[1], None)
            out.append(op)
        return out

    def run(self):
        c = self.c
        self.world()
        nv = len(self.sc["vars"])
        self.sc["shared"] = []
        self.sc["shared_kinds"] = []
        if c.chance(self.cfg.get("shared_p", 0.35)):
            pool = sorted(c.sample(range(nv), min(2, nv)))
            for _ in range(c.weighted([(1, 3), (2, 1)])):
                if c.chance(0.35):
                    # an attribute expression that queries use in different roles (operand of a comparison, bare condition)
                    self.sc["shared"].append(["attr", ["var", c.pick(pool)], c.pick(["a", "b"])])
                    self.sc["shared_kinds"].append("attr")
                else:
                    self.sc["shared"].append(self.atom(pool, 0))
                    self.sc["shared_kinds"].append("cond")
        nq = c.weighted([(1, 3), (2, 4), (3, 3)])
        self.sc["queries"] = [self.query(allow_rule=True) for _ in range(nq)]
        if self.sc["shared"] and nq >= 2 and c.chance(0.35):
            # swarm knob: the same condition node is placed in every query (the case _eval_parent_ exists for)
            self.sc["knob_expression_focus"] = True
            for q in self.sc["queries"]:
                if self.sc["shared_kinds"][0] == "attr" and c.chance(0.5):
                    q["conds"].insert(c.int(0, len(q["conds"])), ["cmp", c.pick(CMP_OPS), ["shared", 0], ["lit", c.int(0, 3)]])
                else:
                    q["conds"].insert(c.int(0, len(q["conds"])), ["shared", 0])
        ops = self.schedule()
        if c.chance(0.5):
            ops = self.serialise_same_rule_query(ops)
            self.sc["knob_no_same_rule_overlap"] = True
        if c.chance(self.cfg.get("reentrant_p", 0.15)):
            # swarm knob: re-entrant pre-emption - at the k-th user-code event inside a step, other tasks are stepped
            # before the event returns (a property or predicate that itself runs a query)
            self.sc["knob_reentrant"] = True
            started = []
            next_tid = 1 + max([op[1] for op in ops if op[0] == "start"] + [-1])
            an_qs = [i for i, q in enumerate(self.sc["queries"]) if q["q"] != "the"]
            for op in ops:
                if op[0] == "start":
                    started.append(op[1])
                elif op[0] == "step" and c.chance(0.5) and an_qs:
                    plans = []
                    for k in sorted(c.sample(range(1, 8), c.int(1, 2))):
                        nested = []
                        for _ in range(c.int(1, 3)):
                            others = [t for t in started if t != op[1]]
                            if others and c.chance(0.75):
                                nested.append([c.pick(["step", "step", "drain"]), c.pick(others)])
                            elif next_tid < 8:
                                nested.append(["start", next_tid, c.pick(an_qs)])
                                nested.append(["step", next_tid])
                                started.append(next_tid)
                                next_tid += 1
                        plans.append([k, nested])
                    op.append(plans)
        self.sc["ops"] = ops
        self.sc["property"] = "C03"
        self.sc["machine"] = "eval_sim"
        return self.sc


def generate(rng, cfg: Dict) -> Dict:
    return Gen(rng, cfg).run()
