"""
C20 on Sim-L: krrood never extends the lifetime of user objects.

A program is a cycle body (create, relate, tie, query, hold results) repeated 3-6
times; each cycle ends with the program dropping every reference, a gc, a sweep and a
census.  Survivors are attributed at the end of the run by severing the process-wide
expression tables (the known immortal structures) and collecting again.
"""
from __future__ import annotations

import gc
from typing import Dict, List

from .. import kernel
from ..kernel import Chooser
from ..worlds import oworld
from .lifecycle_sim import World, result, ALL_CLASSES
from .life_c14 import RELATABLE

from krrood.entity_query_language.entity import let, entity, set_of, exists
from krrood.entity_query_language.quantify_entity import an, the
from krrood.entity_query_language.symbol_graph import SymbolGraph


def generate(rng, cfg: Dict) -> Dict:
    c = Chooser(rng)
    explicit_domains = c.chance(0.5)  # swarm knob: half of the runs avoid the trigger of the open finding
    body: List[list] = []
    classes: Dict[int, str] = {}
    n = c.int(1, 5)
    for h in range(n):
        humans = [k for k, v in classes.items() if v == "Human"]
        cls = c.weighted([("T0", 2), ("T1", 2), ("T2", 1), ("T4", 1), ("U0", 1), ("Org", 4), ("Human", 3), ("Boss", 1.5 if humans else 0)])
        if cls == "Boss":
            body.append(["create", h, cls, c.pick(humans)])
        else:
            body.append(["create", h, cls])
        classes[h] = cls
    for _ in range(c.int(0, 4)):
        cands = [(hs, f, ht) for hs, cs in classes.items() for (dc, f, rc) in RELATABLE if dc == cs for ht, ct in classes.items() if ct == rc]
        if not cands:
            break
        hs, f, ht = c.pick(cands)
        body.append(["relate", "direct" if c.chance(0.08) else "field", hs, f, ht])
    if len(classes) >= 2 and c.chance(0.25):
        a, b = c.sample(list(classes), 2)
        body.append(["tie", a, b])
    for q in range(c.int(0, 3)):
        cls = c.pick(sorted(set(classes.values())) + ["T0"])
        if explicit_domains and c.chance(0.7):
            members = [h for h, k in classes.items() if c.chance(0.7)]
            src = [c.pick(["list", "gen"]), members]
        else:
            src = ["graph"]
        consume = c.weighted([("drain", 5), ("take", 2), ("build_only", 1)])
        cond = c.weighted([(False, 4), (True, 3), ("IsListed", 1.5), ("IsAudited", 1.5), ("collection_eq", 1.5), ("exists", 1.5), ("sub", 2)])
        if cond == "exists":
            # a second variable quantified by exists(...): over the graph or over the same explicit domain
            cond = ["exists", c.pick(["same", "T0", cls]), c.chance(0.5)]
        elif cond == "sub":
            # an independent nested sub-query selects one instance by serial; outer quantifier the(...) or an(...)
            cond = ["sub", c.pick(["the", "an"]), c.pick(["the", "an"]), c.pick(["entity", "attr"]), c.pick(list(classes))]
        body.append(["query", q, cls, src, cond, consume, c.int(0, 2), c.chance(0.6)])
    if c.chance(0.3):
        body.insert(c.int(0, len(body)), [c.pick(["gc", "sweep"])])
    if c.chance(0.2):
        body.append(["drop", c.pick(list(classes))])
    if c.chance(0.3):
        # an instance is dropped and a new one of the same class is created right away - before any sweep
        victims = [h for h, k in classes.items() if k not in ("Boss", "Dean")]
        if victims:
            h = c.pick(victims)
            body.insert(c.int(len(classes), len(body)), ["replace", h, classes[h], 50 + h])
    cycles = c.int(3, 6)
    end = c.weighted([(["dropall", "gc", "sweep", "census"], 6), (["dropall", "gc", "gc", "sweep", "census"], 1), (["dropall", "sweep", "gc", "sweep", "census"], 2),
                      # no explicit sweep: the only thing that happens after the collection is the evaluation of a query
                      # over an explicit domain of plain numbers ("every query evaluation also sweeps")
                      (["dropall", "gc", "eval_numbers", "census"], 2)])
    return {"property": "C20", "machine": "lifecycle_sim", "salt": c.int(0, 1 << 30), "explicit_domains": explicit_domains, "cycles": cycles, "ops": body, "cycle_end": end}


def _sizes():
    g = SymbolGraph()
    out = {}
    try:
        out["nodes"] = len(g._instance_graph.nodes())
        out["edges"] = len(g._instance_graph.edges())
    except AttributeError:
        out["nodes"] = out["edges"] = None
    try:
        out["instance_index"] = len(g._instance_index)
    except AttributeError:
        out["instance_index"] = None
    try:
        out["relation_pairs"] = sum(len(v) for v in g._relation_index.values())
    except AttributeError:
        out["relation_pairs"] = None
    try:
        out["class_lists"] = sum(len(v) for v in g._class_to_wrapped_instances.values())
    except AttributeError:
        out["class_lists"] = None
    return out


def _expression_sizes():
    from krrood.entity_query_language.symbolic import SymbolicExpression
    from krrood.entity_query_language.rxnode import RWXNode

    out = {}
    try:
        out["id_expression_map"] = len(SymbolicExpression._id_expression_map_)
    except AttributeError:
        out["id_expression_map"] = None
    try:
        out["rwx_graph"] = RWXNode._graph.num_nodes()
    except AttributeError:
        out["rwx_graph"] = None
    return out


def sever_expression_tables():
    """The neutraliser of the open finding: empty the process-wide tables that keep every expression alive."""
    from krrood.entity_query_language.symbolic import SymbolicExpression
    from krrood.entity_query_language.rxnode import RWXNode
    from krrood.utils import recursive_subclasses

    try:
        SymbolicExpression._id_expression_map_.clear()
    except AttributeError:
        pass
    try:
        RWXNode._graph.clear()
    except AttributeError:
        pass
    for cls in [SymbolicExpression] + recursive_subclasses(SymbolicExpression):
        for attr in vars(cls).values():
            clear = getattr(attr, "cache_clear", None)
            if clear is not None:
                try:
                    clear()
                except Exception:
                    pass


def _bookkeeping(verdicts, cycle):
    g = SymbolGraph()
    problems = []
    try:
        dead_nodes = [w for w in g._instance_graph.nodes() if w.instance is None]
        if dead_nodes:
            problems.append(("graph-node", f"{len(dead_nodes)} nodes of collected instances remain in the instance graph after a sweep"))
        live_nodes = len(g._instance_graph.nodes()) - len(dead_nodes)
    except AttributeError:
        live_nodes = None
    try:
        dead_idx = [w for w in g._instance_index.values() if w.instance is None]
        if dead_idx:
            problems.append(("instance-index", f"{len(dead_idx)} wrappers of collected instances remain in the instance index after a sweep"))
        elif live_nodes is not None and len(g._instance_index) != live_nodes:
            problems.append(("instance-index", f"the instance index has {len(g._instance_index)} entries for {live_nodes} live nodes"))
    except AttributeError:
        pass
    try:
        dead_cls = [w for lst in g._class_to_wrapped_instances.values() for w in lst if w.instance is None]
        if dead_cls:
            problems.append(("class-lists", f"{len(dead_cls)} wrappers of collected instances remain in the per-class lists after a sweep"))
    except AttributeError:
        pass
    try:
        pairs = sum(len(v) for v in g._relation_index.values())
        edges = len(g._instance_graph.edges())
        if pairs != edges:
            problems.append(("relation-index", f"the relation index holds {pairs} pairs for {edges} edges"))
    except AttributeError:
        pass
    for structure, text in problems:
        verdicts.append(kernel.verdict("C20.bookkeeping", f"cycle {cycle}: {text}", structure=structure))


def _do_query(world, op, cycle, program_refs, log, counters) -> bool:
    """Build and consume one query inside its own frame, so that no local of the harness outlives it."""
    _, q, cls_name, src, with_cond, consume, k, hold = op
    cls = ALL_CLASSES.get(cls_name)
    if cls is None:
        return False
    explicit = False
    if src[0] == "graph":
        domain = None
    else:
        members = [world.handles[h] for h in src[1] if h in world.handles]
        domain = members if src[0] == "list" else (m for m in members)
        explicit = True
    var = let(cls, domain)
    collection_field = {"Human": "member_of", "Org": "members", "Envoy": "affiliated"}.get(cls_name)
    if with_cond == "collection_eq" and collection_field:
        other = let(cls, domain if not explicit or src[0] == "list" else None)
        query = an(entity(var, getattr(var, collection_field) == getattr(other, collection_field)))
        counters.inc("op.query.collection_eq")
    elif isinstance(with_cond, list) and with_cond[0] == "exists":
        other_cls = cls if with_cond[1] == "same" else ALL_CLASSES.get(with_cond[1], cls)
        other = let(other_cls, domain if (with_cond[2] and src[0] == "list") else None)
        query = an(entity(var, exists(other, other.serial == var.serial)))
        counters.inc("op.query.exists")
    elif isinstance(with_cond, list) and with_cond[0] == "sub":
        _, outer_q, inner_q, form, target_h = with_cond
        target = world.handles.get(target_h)
        wanted = target.serial if target is not None else -5
        del target
        inner_var = let(cls, None)
        inner = (the if inner_q == "the" else an)(entity(inner_var, inner_var.serial == wanted))
        condition = (var == inner) if form == "entity" else (var.serial == inner.serial)
        query = (the if outer_q == "the" else an)(entity(var, condition))
        counters.inc("op.query.sub." + outer_q + "_" + inner_q)
        if outer_q == "the":
            # the(...) answers with the one result itself (or raises when there is none / more than one)
            res = []
            try:
                res = [query.evaluate()]
            except Exception as e:
                log.add("query-exc", type(e).__name__)
            log.add("query", cycle, q, sorted(getattr(r, "serial", -1) for r in res))
            if hold:
                program_refs[f"q{q}"] = (query, var, inner, inner_var, res)
            return explicit
    elif isinstance(with_cond, str) and with_cond in oworld.PREDICATES:
        query = an(entity(var, oworld.PREDICATES[with_cond](x=var)))
        counters.inc("op.query.predicate")
    else:
        query = an(entity(var, var.serial >= 0)) if with_cond else an(entity(var))
    counters.inc("op.query." + ("graph" if domain is None else src[0]))
    res, it = [], None
    try:
        if consume == "drain":
            res = list(query.evaluate())
        elif consume == "take":
            it = query.evaluate()
            for _ in range(k):
                try:
                    res.append(next(it))
                except StopIteration:
                    break
    except Exception as e:
        log.add("query-exc", type(e).__name__)
    log.add("query", cycle, q, sorted(getattr(r, "serial", -1) for r in res))
    if hold:
        program_refs[f"q{q}"] = (query, var, it, res)
    return explicit


def _eval_numbers(counters):
    x = let(int, domain=[1, 2, 3])
    list(an(entity(x, x > 1)).evaluate())
    counters.inc("fault.sweep_left_to_an_explicit_domain_evaluation")


def execute(scenario: Dict) -> Dict:
    log, counters = kernel.EventLog(), kernel.Counters()
    verdicts: List[Dict] = []
    world = World(scenario.get("salt", 0), log, counters)
    program_refs: Dict[str, object] = {}
    graph_sizes, expr_sizes, survivors_per_cycle = [], [], []
    used_explicit = False
    queries_built = 0

    for cycle in range(scenario.get("cycles", 3)):
        base = 1000 * (cycle + 1)
        for op in scenario["ops"] + [[k] for k in scenario.get("cycle_end", ["dropall", "gc", "sweep", "census"])]:
            kind = op[0]
            if kind == "create":
                taker = op[3] if len(op) > 3 else None
                if op[2] in ALL_CLASSES:
                    world.create(op[1], op[2], base + op[1], taker)
            elif kind == "relate":
                try:
                    world.relate(op[1], op[2], op[3], op[4])
                except Exception as e:
                    log.add("relate-exc", type(e).__name__)
            elif kind == "tie":
                world.tie(op[1], op[2])
            elif kind == "drop":
                world.drop(op[1])
            elif kind == "replace":
                if world.drop(op[1]) and op[2] in ALL_CLASSES:
                    world.create(op[3], op[2], base + op[3])
                    counters.inc("fault.replaced_before_sweep")
            elif kind == "gc":
                world.gc()
            elif kind == "sweep":
                world.sweep()
            elif kind == "query":
                used_explicit = _do_query(world, op, cycle, program_refs, log, counters) or used_explicit
                queries_built += 1
            elif kind == "eval_numbers":
                _eval_numbers(counters)
            elif kind == "dropall":
                for h in list(world.handles):
                    world.drop(h)
                program_refs.clear()
            elif kind == "census":
                alive = [rec["serial"] for rec in world.census if rec["dropped"] and rec["ref"]() is not None]
                survivors_per_cycle.append(len(alive))
                graph_sizes.append(_sizes())
                expr_sizes.append(_expression_sizes())
                log.add("census", cycle, sorted(alive), graph_sizes[-1])
                counters.inc("op.census")
                if not alive:
                    _bookkeeping(verdicts, cycle)

    # attribution of survivors: sever the known immortal tables, collect again
    before = {rec["serial"] for rec in world.census if rec["dropped"] and rec["ref"]() is not None}
    if before:
        sever_expression_tables()
        gc.collect()
        SymbolGraph().remove_dead_instances()
        gc.collect()
        after = {rec["serial"] for rec in world.census if rec["dropped"] and rec["ref"]() is not None}
        freed = before - after
        if freed:
            counters.inc("probe.survivors_freed_by_severing", len(freed))
            verdicts.append(kernel.verdict("C20.retained", f"{len(freed)} instances ({sorted(freed)[:6]}) outlived every program reference and were reclaimed only after the expression registry, the expression graph and the expression method caches had been emptied", retained_via="expression-registry", explicit_domain=used_explicit))
        if after:
            chains = []
            for s in sorted(after)[:3]:
                obj = world.by_serial[s]["ref"]()
                refs = [type(r).__name__ for r in gc.get_referrers(obj) if r is not locals()]
                chains.append([s, sorted(set(refs))[:6]])
                del obj
            verdicts.append(kernel.verdict("C20.retained", f"{len(after)} instances outlive every program reference and the emptied expression tables; referrers: {chains}", retained_via="other", explicit_domain=used_explicit))
        else:
            _bookkeeping(verdicts, "final")
    # growth: the same body repeated must not grow any structure once warmed up
    if len(graph_sizes) >= 3 and not any(survivors_per_cycle):
        ref = graph_sizes[1]
        for i in range(2, len(graph_sizes)):
            for k, v in graph_sizes[i].items():
                if v is not None and ref.get(k) is not None and v != ref[k]:
                    verdicts.append(kernel.verdict("C20.growth", f"{k} is {v} after cycle {i} but {ref[k]} after cycle 1 although every cycle runs the same body and drops everything", structure="symbol-graph:" + k))
                    break
            else:
                continue
            break
    elif any(survivors_per_cycle):
        counters.inc("probe.growth_not_judged_because_of_survivors")
    if len(expr_sizes) >= 3 and queries_built:
        ref = expr_sizes[1]
        last = expr_sizes[-1]
        grown = [k for k in last if last[k] is not None and ref.get(k) is not None and last[k] > ref[k]]
        if grown:
            verdicts.append(kernel.verdict("C20.growth", f"{grown} grow with every cycle: {[e for e in expr_sizes]}", structure="expression-registry", retained_via="expression-registry"))
    if graph_sizes and any(v is None for v in graph_sizes[-1].values()):
        counters.inc("probe.structure_not_measurable")
    counters.inc("ops", len(scenario["ops"]) * scenario.get("cycles", 3))
    nontrivial = bool(world.census) and len(graph_sizes) >= 3
    shape = kernel.short_hash([[op[:3] + ([op[3][0], op[5]] if op[0] == "query" else []) for op in scenario["ops"]], scenario.get("cycles"), scenario.get("cycle_end")])
    return result(log, counters, verdicts, nontrivial, shape)
