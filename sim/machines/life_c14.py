"""
C14 on Sim-L: asserting a relation has the same effect whatever lived and died before.

A run is (prefix, suffix).  Variant A (a forked grandchild) runs the suffix alone on a
fresh graph; variant B runs prefix then suffix.  The observable outcome of the suffix
must be identical.
"""
from __future__ import annotations

from typing import Dict, List

from .. import kernel, procs
from ..kernel import Chooser
from ..worlds import oworld
from .lifecycle_sim import World, norm_fields, graph_relations, result, FIELD_KIND

from krrood.entity_query_language.entity import let, entity
from krrood.entity_query_language.quantify_entity import an
from krrood.entity_query_language.symbol_graph import SymbolGraph

RELATABLE = [
    ("Human", "works_for", "Org"),
    ("Human", "member_of", "Org"),
    ("Org", "members", "Human"),
    ("Org", "sub_org_of", "Org"),
    ("Org", "partners", "Org"),
    ("Boss", "head_of", "Org"),
]


# ------------------------------------------------------------------------- generation


def _population(c: Chooser, base: int, n: int) -> List[list]:
    """create ops for n instances with handles base.."""
    ops, classes = [], {}
    for i in range(n):
        h = base + i
        humans = [k for k, v in classes.items() if v == "Human"]
        cls = c.weighted([("Org", 5), ("Human", 4), ("Boss", 2 if humans else 0)])
        if cls == "Boss":
            ops.append(["create", h, "Boss", h, c.pick(humans)])
        else:
            ops.append(["create", h, cls, h])
        classes[h] = cls
    return ops, classes


def _relations(c: Chooser, classes: Dict[int, str], n: int, direct_p=0.12) -> List[list]:
    ops = []
    for _ in range(n):
        cands = []
        for hs, cs in classes.items():
            for (dc, f, rc) in RELATABLE:
                if dc != cs:
                    continue
                for ht, ct in classes.items():
                    if ct == rc and (ht != hs or c.chance(0.1)):
                        cands.append((hs, f, ht))
        if not cands:
            break
        hs, f, ht = c.pick(cands)
        ops.append(["relate", "direct" if c.chance(direct_p) else "field", hs, f, ht])
    return ops


def generate(rng, cfg: Dict) -> Dict:
    c = Chooser(rng)
    if c.chance(0.4):
        return generate_liveness(c, rng)
    n_suffix = c.int(2, 5)
    s_creates, s_classes = _population(c, 100, n_suffix)
    s_rel = _relations(c, s_classes, c.int(1, 6))
    # interleave: creations first mostly, sometimes relations between creations
    suffix = list(s_creates)
    for op in s_rel:
        suffix.append(op)
    if c.chance(0.25):
        suffix = _stable_interleave(c, s_creates, s_rel)
    shape = c.weighted([("mirror", 5), ("permuted", 4), ("random", 3), ("none", 0.5), ("many_failures", 0.6)])
    faults = c.chance(0.35)  # swarm knob: prefix operations that fail half-way
    prefix: List[list] = []
    if shape in ("mirror", "permuted"):
        rounds = c.int(1, 3)
        base = 0
        for _ in range(rounds):
            creates = []
            classes = {}
            order = list(s_creates)
            if shape == "permuted":
                order = c.shuffle(order)
                # a Boss needs its Human first
                order.sort(key=lambda op: 1 if op[2] == "Boss" else 0)
            mapping = {}
            for i, op in enumerate(order):
                h = base + i
                mapping[op[1]] = h
                if op[2] == "Boss":
                    creates.append(["create", h, "Boss", h, mapping.get(op[4], h)])
                else:
                    creates.append(["create", h, op[2], h])
                classes[h] = op[2]
            rels = []
            if c.chance(0.7):
                for op in s_rel:
                    hs, ht = mapping[op[2]], mapping[op[4]]
                    if c.chance(0.5):
                        rels.append(["relate", op[1], hs, op[3], ht])
                    else:
                        # the stale pair the suffix would hit with swapped creation order
                        rels.append(["relate", op[1], hs, op[3], ht])
            rels += _relations(c, classes, c.int(0, 3))
            if faults:
                rels = _with_faults(c, rels, classes, base + 50)
            prefix += creates + rels
            if c.chance(0.3):
                hs = list(classes)
                if len(hs) >= 2:
                    a, b = c.sample(hs, 2)
                    prefix.append(["tie", a, b])
            if c.chance(0.15):
                prefix.append(["query", c.pick(["Org", "Human", "Boss"])])
            drop_all = c.chance(0.8)
            for h in (list(classes) if drop_all else c.sample(list(classes), c.int(0, len(classes)))):
                prefix.append(["drop", h])
            tail = c.weighted([(["gc", "sweep"], 6), (["sweep"], 2), (["gc"], 1), (["gc", "query"], 2), ([], 1), (["gc", "sweep", "clear"], 0.5)])
            for t in tail:
                prefix.append([t] if t != "query" else ["query", c.pick(["Org", "Human", "Boss"])])
            base += len(order)
    elif shape == "many_failures":
        # a long past of operations that failed half-way and were caught by the program (anything that counts, nests
        # or remembers "in progress" without unwinding it on the error path accumulates here)
        prefix += [["create", 0, "Org", 0], ["create", 1, "Human", 1]]
        for i in range(c.int(40, 110)):
            if c.chance(0.8):
                prefix.append(["create_failing", 500 + i, 0, None])
            else:
                prefix.append(["relate_interrupted", "field", 1, c.pick(["works_for", "member_of"]), 0, c.int(0, 4)])
        prefix += [["drop", 0], ["drop", 1], ["gc"], ["sweep"]]
    elif shape == "random":
        classes = {}
        nxt = 0
        for _ in range(c.int(4, 25)):
            r = rng.random()
            if r < 0.35 or not classes:
                ops, cl = _population(c, nxt, 1)
                # _population cannot create a Boss without a Human in *its* table; patch with ours
                humans = [k for k, v in classes.items() if v == "Human"]
                if humans and c.chance(0.2):
                    ops = [["create", nxt, "Boss", nxt, c.pick(humans)]]
                    cl = {nxt: "Boss"}
                prefix += ops
                classes.update(cl)
                nxt += 1
            elif r < 0.6:
                one = _relations(c, classes, 1)
                prefix += _with_faults(c, one, classes, 900 + nxt) if faults else one
            elif r < 0.8:
                h = c.pick(list(classes))
                prefix.append(["drop", h])
                del classes[h]
            elif r < 0.88:
                prefix.append(["gc"])
            elif r < 0.95:
                prefix.append(["sweep"])
            elif r < 0.98:
                prefix.append(["query", c.pick(["Org", "Human", "Boss"])])
            else:
                prefix.append(["clear"])
        if c.chance(0.7):
            for h in list(classes):
                prefix.append(["drop", h])
            prefix += [["gc"], ["sweep"]]
    return {"property": "C14", "machine": "lifecycle_sim", "salt": c.int(0, 1 << 30), "prefix_shape": shape, "prefix": prefix, "suffix": suffix}


def _with_faults(c: Chooser, rels: List[list], classes: Dict[int, str], serial: int) -> List[list]:
    """Some of the assertions are interrupted by failing user code; sometimes a constructor does not complete."""
    out = []
    for op in rels:
        if c.chance(0.4):
            out.append(["relate_interrupted", op[1], op[2], op[3], op[4], c.int(0, 5)])
            if c.chance(0.5):
                out.append(op)  # the program retries
        else:
            out.append(op)
    orgs = [h for h, k in classes.items() if k == "Org"]
    if orgs and c.chance(0.5):
        out.insert(c.int(0, len(out)), ["create_failing", serial, c.pick(orgs), c.pick([None, None, 0, 1, 2, 3])])
    return out


def generate_liveness(c: Chooser, rng) -> Dict:
    """
    One op list in which survivors keep being related after other instances died: the reference variant runs the
    same ops but nothing ever dies (every dropped instance is kept alive behind the program's back).
    """
    ops: List[list] = []
    classes: Dict[int, str] = {}
    nxt = 0
    for _ in range(c.int(8, 35)):
        r = rng.random()
        if (r < 0.28 or len(classes) < 2) and len(classes) < 9:
            humans = [k for k, v in classes.items() if v == "Human"]
            cls = c.weighted([("Org", 5), ("Human", 4), ("Boss", 2 if humans else 0)])
            ops.append(["create", nxt, "Boss", nxt, c.pick(humans)] if cls == "Boss" else ["create", nxt, cls, nxt])
            classes[nxt] = cls
            nxt += 1
        elif r < 0.55:
            ops += _relations(c, classes, 1, direct_p=0.08)
        elif r < 0.67:
            h = c.pick(list(classes))
            fields = [f for (dc, f, rc) in RELATABLE if dc == classes[h]]
            ops.append(["unassign", h, c.pick(fields)])
        elif False and r < 0.70 and len(classes) < 9:
            # DISABLED (see DESIGN.md 8.3): handing a live monitored container to a constructor aliases it between two
            # owners; the reference variant (nothing dies) then differs from reality for reasons that have nothing to do
            # with what dead instances leave behind, so this op cannot be judged by the liveness differential.
            donors = [(h, f) for h, cs in classes.items() for (dc, f, rc) in RELATABLE if dc == cs and FIELD_KIND[(cs, f)] != "single"]
            if donors:
                h, f = c.pick(donors)
                donor_dies_first = c.chance(0.5)
                ops.append(["create_with", nxt, classes[h], nxt, h, f, donor_dies_first])
                classes[nxt] = classes[h]
                nxt += 1
                if donor_dies_first or c.chance(0.3):
                    if not donor_dies_first:
                        ops.append(["drop", h])
                    del classes[h]
        elif r < 0.80:
            h = c.pick(list(classes))
            ops.append(["drop", h])
            del classes[h]
        elif r < 0.88:
            ops.append(["gc"])
        elif r < 0.96:
            ops.append(["sweep"])
        elif len(classes) >= 2:
            a, b = c.sample(list(classes), 2)
            ops.append(["tie", a, b])
    # end with a few assertions among the survivors and newcomers, after a collection
    ops += [["gc"], ["sweep"]] if c.chance(0.7) else []
    for _ in range(c.int(1, 3)):
        humans = [k for k, v in classes.items() if v == "Human"]
        cls = c.weighted([("Org", 5), ("Human", 4), ("Boss", 2 if humans else 0)])
        ops.append(["create", nxt, "Boss", nxt, c.pick(humans)] if cls == "Boss" else ["create", nxt, cls, nxt])
        classes[nxt] = cls
        nxt += 1
    ops += _relations(c, classes, c.int(1, 4), direct_p=0.05)
    return {"property": "C14", "machine": "lifecycle_sim", "mode": "liveness", "salt": c.int(0, 1 << 30), "prefix": [], "suffix": [], "ops": ops}


def run_liveness(arg) -> Dict:
    scenario, immortal = arg
    import weakref as _weakref

    log, counters = kernel.EventLog(), kernel.Counters()
    world = World(scenario.get("salt", 0), log, counters)
    keep = []
    errors = []
    indices, ids = {}, {}
    for i, op in enumerate(scenario["ops"]):
        kind = op[0]
        try:
            if kind == "create":
                obj = world.create(op[1], op[2], op[3], op[4] if len(op) > 4 else None)
                if obj is not None:
                    w = SymbolGraph().get_wrapped_instance(obj)
                    indices[op[3]] = None if w is None else w.index
                    ids[op[3]] = id(obj)
                del obj
            elif kind == "create_with":
                _, h, cls_name, serial, donor, field = op[:6]
                donor_dies_first = bool(op[6]) if len(op) > 6 else False
                src = world.handles.get(donor)
                if src is not None and h not in world.handles and type(src).__name__ == cls_name and cls_name not in ("Boss", "Dean"):
                    import weakref as _wr

                    collection = getattr(src, field)
                    if immortal or not donor_dies_first:
                        # Two live owners sharing one container object write into each other's field (plain Python
                        # aliasing).  The reference variant keeps every donor alive, so there the new instance gets a
                        # copy; the live object itself is handed over only where its owner is really dead.
                        collection = list(collection) if isinstance(collection, list) else set(collection)
                    if donor_dies_first:
                        # the program keeps only the collection; its owner is dropped (and, unless something else holds
                        # it, dies) before the new instance is constructed - most likely at the same address
                        if immortal:
                            keep.append(src)
                        del src
                        world.drop(donor)
                        src = None
                    obj = oworld.ONTOLOGY_CLASSES[cls_name](serial, **{field: collection})
                    del collection
                    world.seq += 1
                    rec = {"serial": serial, "cls": cls_name, "ref": _wr.ref(obj), "epoch": world.epoch, "seq": world.seq, "dropped": False}
                    world.census.append(rec)
                    world.by_serial[serial] = rec
                    world.handles[h] = obj
                    w = SymbolGraph().get_wrapped_instance(obj)
                    indices[serial] = None if w is None else w.index
                    ids[serial] = id(obj)
                    counters.inc("op.create_with_foreign_collection")
                    del obj
                del src
            elif kind == "relate":
                world.relate(op[1], op[2], op[3], op[4])
            elif kind == "unassign":
                obj = world.handles.get(op[1])
                if obj is not None and (type(obj).__name__, op[2]) in FIELD_KIND:
                    k = FIELD_KIND[(type(obj).__name__, op[2])]
                    setattr(obj, op[2], None if k == "single" else ([] if k == "list" else set()))
                    counters.inc("op.unassign")
                del obj
            elif kind == "drop":
                if immortal and op[1] in world.handles:
                    keep.append(world.handles[op[1]])
                world.drop(op[1])
            elif kind == "tie":
                world.tie(op[1], op[2])
            elif kind == "gc":
                world.gc()
            elif kind == "sweep":
                world.sweep()
            elif kind == "query":
                cls = oworld.ONTOLOGY_CLASSES.get(op[1])
                if cls is not None:
                    list(an(entity(let(cls, None))).evaluate())
        except Exception as e:
            errors.append([i, type(e).__name__, kind])
    world.gc()
    alive = sorted(rec["serial"] for rec in world.census if rec["ref"]() is not None)
    fields = {}
    for rec in world.census:
        obj = rec["ref"]()
        if obj is not None:
            fields[str(rec["serial"])] = norm_fields(obj)
        del obj
    reused_index = len(set(v for v in indices.values() if v is not None)) < len([v for v in indices.values() if v is not None])
    reused_id = len(set(ids.values())) < len(ids)
    return {"alive": alive, "relations": sorted([list(r) for r in graph_relations()], key=kernel.canonical), "fields": fields, "errors": errors,
            "probes": {"node_index_reused": int(reused_index), "object_id_reused": int(reused_id)}, "counters": dict(counters)}


def execute_liveness(scenario: Dict) -> Dict:
    log, counters = kernel.EventLog(), kernel.Counters()
    verdicts: List[Dict] = []
    a = procs.in_child(run_liveness, (scenario, True), wall_cap=10)
    if "harness_error" in a or a.get("timeout"):
        raise RuntimeError(f"reference variant failed: {a}")
    b = run_liveness((scenario, False))
    for k, v in b["counters"].items():
        counters.inc(k, v)
    for k, v in b["probes"].items():
        if v:
            counters.inc("probe." + k, v)
    live = set(b["alive"])
    ra = {kernel.canonical(r) for r in a["relations"] if r[0] in live and r[2] in live}
    rb = {kernel.canonical(r) for r in b["relations"] if r[0] in live and r[2] in live}
    dangling = [r for r in b["relations"] if (r[0] in live) != (r[2] in live) and "dead" not in (r[0], r[2])]
    feats = dict(index_reused=bool(b["probes"]["node_index_reused"]), id_reused=bool(b["probes"]["object_id_reused"]), mode="liveness")
    log.add("A", sorted(ra), a["errors"])
    log.add("B", sorted(rb), b["errors"], b["alive"])
    raised = [e for e in a["errors"] + b["errors"] if e[2] in ("relate", "unassign")]
    if raised:
        verdicts.append(kernel.verdict("C14.assert-raises", f"an assertion between live instances raised {raised[0][1]} (op #{raised[0][0]})", exception=raised[0][1], **feats))
    elif a["errors"] != b["errors"]:
        verdicts.append(kernel.verdict("C14.exception", f"ops raise differently when instances die: {b['errors']} vs when nothing dies: {a['errors']}", **feats))
    missing, extra = sorted(ra - rb), sorted(rb - ra)
    if missing:
        verdicts.append(kernel.verdict("C14.relation-missing", f"relations among surviving instances that exist when nothing ever dies but not with the real lifetimes: {missing[:4]}", field=_field_of(missing[0]), **feats))
    if extra:
        verdicts.append(kernel.verdict("C14.relation-extra", f"relations among surviving instances recorded only because other instances died: {extra[:4]}", field=_field_of(extra[0]), **feats))
    def only_live(fields):
        # what inference adds to a survivor's field because an instance that is dead in reality is still
        # alive in the reference variant is not part of the comparison
        out = {}
        for name, value in fields.items():
            if isinstance(value, list):
                out[name] = [x for x in value if x in live]
            else:
                out[name] = value if (value is None or value in live) else None
        return out

    fa = {s: only_live(f) for s, f in a["fields"].items() if int(s) in live}
    fb = {s: only_live(f) for s, f in b["fields"].items()}
    b = dict(b, fields=fb)
    if fa != b["fields"]:
        diffs = [(s, f, fa.get(s, {}).get(f), b["fields"][s].get(f)) for s in b["fields"] for f in b["fields"][s] if fa.get(s, {}).get(f) != b["fields"][s].get(f)]
        verdicts.append(kernel.verdict("C14.field-differs", f"managed fields of survivors differ (serial, field, nothing dies, real lifetimes): {diffs[:4]}", field=diffs[0][1] if diffs else None, **feats))
    died = len(a["alive"]) - len(b["alive"])
    if died > 0:
        counters.inc("probe.liveness_runs_with_deaths")
    nontrivial = died > 0 and bool(rb)
    counters.inc("ops", len(scenario["ops"]))
    counters.inc("mode.liveness")
    shape = kernel.short_hash(["liveness", [op[:3] for op in scenario["ops"]]])
    return result(log, counters, verdicts, nontrivial, shape)


def _stable_interleave(c: Chooser, creates, rels):
    """Relations as early as their endpoints exist."""
    out, made = [], set()
    pending = list(rels)
    for op in creates:
        out.append(op)
        made.add(op[1])
        still = []
        for r in pending:
            if r[2] in made and r[4] in made and c.chance(0.6):
                out.append(r)
            else:
                still.append(r)
        pending = still
    return out + pending


# ------------------------------------------------------------------------- execution


def _interpret(world: World, ops: List[list], log_prefix: str, track: Dict):
    errors = []
    for i, op in enumerate(ops):
        kind = op[0]
        try:
            if kind == "create":
                obj = world.create(op[1], op[2], op[3], op[4] if len(op) > 4 else None)
                if obj is not None:
                    w = SymbolGraph().get_wrapped_instance(obj)
                    track["indices"].append(None if w is None else w.index)
                    track["ids"].append(id(obj))
                    track["serials"].append(op[3])
                del obj
            elif kind == "relate":
                world.relate(op[1], op[2], op[3], op[4])
            elif kind == "relate_interrupted":
                # fault: user code (__hash__ of an instance) fails at its k-th call inside the assertion
                _, how, hs, field, ht, k = op
                oworld.FAULT[0] = k
                try:
                    world.relate(how, hs, field, ht)
                except oworld.InjectedFault:
                    world.counters.inc("fault.assertion_interrupted")
                finally:
                    oworld.FAULT[0] = None
            elif kind == "create_failing":
                # fault: a constructor that assigns a managed field and does not complete (on the unchanged tree
                # Human(serial, works_for=org) raises because works_for is assigned before member_of exists); the
                # half-built instance is garbage at once
                _, serial, ht, k = op
                target = world.handles.get(ht)
                if isinstance(target, oworld.Org):
                    oworld.FAULT[0] = k
                    try:
                        oworld.Human(serial, works_for=target)
                        world.counters.inc("probe.constructor_with_managed_argument_completed")
                    except Exception:
                        world.counters.inc("fault.constructor_raised")
                    finally:
                        oworld.FAULT[0] = None
                del target
            elif kind == "drop":
                world.drop(op[1])
            elif kind == "tie":
                world.tie(op[1], op[2])
            elif kind == "gc":
                world.gc()
            elif kind == "sweep":
                world.sweep()
            elif kind == "clear":
                world.clear()
            elif kind == "query":
                cls = oworld.ONTOLOGY_CLASSES.get(op[1])
                if cls is not None:
                    world.counters.inc("op.query")
                    list(an(entity(let(cls, None))).evaluate())
        except Exception as e:
            errors.append([i, type(e).__name__, kind])
    return errors


def _outcome(world: World, suffix_serials: set) -> Dict:
    rels, mis = [], []
    for (s, f, t, inferred) in graph_relations():
        s_in, t_in = s in suffix_serials, t in suffix_serials
        if s_in and t_in:
            rels.append([s, f, t, inferred])
        elif s_in or t_in:
            mis.append([s, f, t, inferred])
    fields = {}
    for h, obj in world.handles.items():
        if obj.serial in suffix_serials:
            fields[str(obj.serial)] = norm_fields(obj)
    return {"relations": sorted(rels, key=kernel.canonical), "misattached": sorted(mis, key=kernel.canonical), "fields": fields}


def run_variant(arg) -> Dict:
    scenario, with_prefix = arg
    log, counters = kernel.EventLog(), kernel.Counters()
    world = World(scenario.get("salt", 0), log, counters)
    ptrack = {"indices": [], "ids": [], "serials": []}
    perr = _interpret(world, scenario["prefix"], "p", ptrack) if with_prefix else []
    stale_pairs = sum(len(v) for v in SymbolGraph()._relation_index.values()) - len(list(SymbolGraph().relations())) if with_prefix else 0
    strack = {"indices": [], "ids": [], "serials": []}
    serr = _interpret(world, scenario["suffix"], "s", strack)
    out = _outcome(world, set(strack["serials"]))
    out["suffix_errors"] = serr
    out["prefix_errors"] = perr
    out["probes"] = {
        "node_index_reused": int(bool(set(i for i in strack["indices"] if i is not None) & set(i for i in ptrack["indices"] if i is not None))),
        "object_id_reused": int(bool(set(strack["ids"]) & set(ptrack["ids"]))),
        "stale_index_pairs_before_suffix": int(stale_pairs > 0),
    }
    out["counters"] = dict(counters)
    return out


def execute(scenario: Dict) -> Dict:
    if scenario.get("mode") == "liveness":
        return execute_liveness(scenario)
    log, counters = kernel.EventLog(), kernel.Counters()
    verdicts: List[Dict] = []
    a = procs.in_child(run_variant, (scenario, False), wall_cap=10)
    if "harness_error" in a or a.get("timeout"):
        raise RuntimeError(f"variant A failed: {a}")
    b = run_variant((scenario, True))
    for k, v in b["counters"].items():
        counters.inc(k, v)
    for k, v in b["probes"].items():
        if v:
            counters.inc("probe." + k, v)
    if b["prefix_errors"]:
        counters.inc("probe.prefix_op_raised", len(b["prefix_errors"]))
    log.add("A", a["relations"], a["fields"], a["suffix_errors"])
    log.add("B", b["relations"], b["fields"], b["suffix_errors"], b["misattached"], b["prefix_errors"])
    ra = {kernel.canonical(r) for r in a["relations"]}
    rb = {kernel.canonical(r) for r in b["relations"]}
    feats = dict(index_reused=bool(b["probes"]["node_index_reused"]), id_reused=bool(b["probes"]["object_id_reused"]))
    raised = [e for e in a["suffix_errors"] + b["suffix_errors"] + b["prefix_errors"] if e[2] == "relate"]
    if raised:
        # the ontology is well formed and the generator only relates live, well-typed instances:
        # no assertion has a legitimate reason to raise
        verdicts.append(kernel.verdict("C14.assert-raises", f"asserting a relation between two live instances raised {raised[0][1]} (op #{raised[0][0]})", exception=raised[0][1], **feats))
    if a["suffix_errors"] != b["suffix_errors"]:
        verdicts.append(kernel.verdict("C14.exception", f"suffix ops raise differently after the prefix: {b['suffix_errors']} vs alone: {a['suffix_errors']}", **feats))
    missing = sorted(ra - rb)
    extra = sorted(rb - ra)
    if missing:
        verdicts.append(kernel.verdict("C14.relation-missing", f"relations recorded when the suffix runs alone but not after the prefix: {missing[:4]}", field=_field_of(missing[0]), **feats))
    if extra:
        verdicts.append(kernel.verdict("C14.relation-extra", f"relations recorded only after the prefix: {extra[:4]}", field=_field_of(extra[0]), **feats))
    if b["misattached"] or a["misattached"]:
        verdicts.append(kernel.verdict("C14.misattached", f"relations between a suffix instance and a foreign or dead instance: {(b['misattached'] or a['misattached'])[:4]}", **feats))
    if a["fields"] != b["fields"]:
        diffs = [(s, f, a["fields"][s].get(f), b["fields"].get(s, {}).get(f)) for s in a["fields"] for f in a["fields"][s] if a["fields"][s].get(f) != b["fields"].get(s, {}).get(f)]
        verdicts.append(kernel.verdict("C14.field-differs", f"managed fields differ (serial, field, alone, after prefix): {diffs[:4]}", field=diffs[0][1] if diffs else None, **feats))
    nontrivial = bool(scenario["prefix"]) and bool(a["relations"]) and (b["probes"]["node_index_reused"] or b["probes"]["object_id_reused"])
    shape = kernel.short_hash([[op[:3] for op in scenario["prefix"]], [op[:3] for op in scenario["suffix"]]])
    counters.inc("ops", len(scenario["prefix"]) + len(scenario["suffix"]))
    return result(log, counters, verdicts, nontrivial, shape)


def _field_of(canon: str):
    import json

    try:
        return json.loads(canon)[1]
    except Exception:
        return None
