"""
Sim-D: the class-diagram history simulator (property C17).

A seeded generator writes the source of a family of dataclasses and records, by
construction, the kind and target of every field (the ground truth).  The scheduler
chooses the order of the class list and a history of read-only diagram operations,
derived views (themselves used as receivers) and renderings; after every operation
all diagrams created so far must be unchanged, equal to the ground truth, classify
their fields as recorded and answer consistently.
"""
from __future__ import annotations

import copy
import os
import shutil
import sys
import tempfile
import types
from typing import Any, Dict, List, Optional, Tuple

import logging

from .. import kernel
from ..kernel import Chooser

logging.disable(logging.WARNING)  # krrood logs a warning for every ambiguous class name; the harness provokes them on purpose

from krrood.class_diagrams.class_diagram import ClassDiagram, Association, Inheritance, HasRoleTaker, WrappedClass

BUILTINS = ["int", "str", "float", "bool"]
KINDS = ["builtin", "opt_builtin", "enum", "opt_enum", "list_builtin", "one_to_one", "opt_one", "one_to_many", "type_valued", "private"]

# predicate table: kind -> (must be true, must be false)
TABLE = {
    "builtin": (["is_builtin_type"], ["is_container", "is_optional", "is_enum", "is_one_to_one_relationship", "is_one_to_many_relationship", "is_type_type"]),
    "opt_builtin": (["is_optional", "is_builtin_type"], ["is_container", "is_enum", "is_one_to_one_relationship", "is_one_to_many_relationship", "is_type_type"]),
    "enum": (["is_enum"], ["is_container", "is_builtin_type", "is_optional", "is_one_to_many_relationship", "is_type_type"]),
    "opt_enum": (["is_enum", "is_optional"], ["is_container", "is_builtin_type", "is_one_to_many_relationship", "is_type_type"]),
    "list_builtin": (["is_container", "is_collection_of_builtins", "is_builtin_type"], ["is_optional", "is_enum", "is_one_to_one_relationship", "is_one_to_many_relationship", "is_type_type"]),
    "one_to_one": (["is_one_to_one_relationship"], ["is_container", "is_builtin_type", "is_optional", "is_enum", "is_one_to_many_relationship", "is_type_type"]),
    "opt_one": (["is_optional", "is_one_to_one_relationship"], ["is_container", "is_builtin_type", "is_enum", "is_one_to_many_relationship", "is_type_type"]),
    "one_to_many": (["is_container", "is_one_to_many_relationship"], ["is_one_to_one_relationship", "is_builtin_type", "is_optional", "is_enum", "is_type_type"]),
    "type_valued": (["is_type_type"], ["is_one_to_one_relationship", "is_builtin_type", "is_optional", "is_enum"]),
}


# ------------------------------------------------------------------------- generation


def generate(rng, cfg: Dict) -> Dict:
    c = Chooser(rng)
    n = c.int(2, 7)
    symbol_family = c.chance(0.25)
    two_modules = (not symbol_family) and c.chance(0.2)
    names = [f"D{i}" for i in range(n)]
    classes = []
    for i, name in enumerate(names):
        earlier = names[:i]
        bases = []
        if earlier and c.chance(0.55):
            bases = [c.pick(earlier)]
            if len(earlier) >= 2 and c.chance(0.25):
                other = c.pick([e for e in earlier if e != bases[0]])
                bases.append(other)
        module = "b" if (two_modules and c.chance(0.4)) else "a"
        fields = []
        role_of = None
        if earlier and not bases and c.chance(0.2):
            # the Role design pattern: class Di(Role[Dj]) with a required field of exactly type Dj (the role taker)
            role_of = c.pick(earlier)
            fields.append({"name": f"taker{i}", "kind": "one_to_one", "target": role_of, "as_string": c.chance(0.3), "required": True})
        for j in range(c.int(0, 4)):
            kind = c.weighted([("builtin", 2), ("opt_builtin", 1.5), ("enum", 1), ("opt_enum", 0.7), ("list_builtin", 1.5), ("one_to_one", 3), ("opt_one", 2.5), ("one_to_many", 3), ("type_valued", 1.5), ("private", 1.2)])
            f = {"name": f"f{i}_{j}", "kind": kind, "as_string": c.weighted([(False, 5), (True, 3), ("inner", 2)])}
            if kind in ("builtin", "opt_builtin", "list_builtin"):
                f["target"] = c.pick(BUILTINS)
                f["container"] = c.pick(["List", "Set", "Tuple"])
            elif kind in ("enum", "opt_enum"):
                f["target"] = c.weighted([("Color", 3), ("Level", 1), ("Tone", 1)])
            else:
                f["target"] = c.pick(names)
                f["container"] = c.weighted([("List", 4), ("Set", 3), ("Tuple", 2)])
                if kind == "private":
                    f["name"] = "_" + f["name"]
                    f["inner"] = c.pick(["one_to_one", "one_to_many", "opt_one"])
            fields.append(f)
        classes.append({"name": name, "bases": bases, "module": module, "fields": fields, "role_of": role_of})
    # a reference written as a real expression must point to a class defined earlier in the same module
    index = {cl["name"]: k for k, cl in enumerate(classes)}
    for k, cl in enumerate(classes):
        for f in cl["fields"]:
            t = f["target"]
            if t in index and (index[t] >= k or classes[index[t]]["module"] != cl["module"]) and not f["as_string"]:
                f["as_string"] = True
        # bases must be importable: keep bases in the same module
        cl["bases"] = [b for b in cl["bases"] if classes[index[b]]["module"] == cl["module"]]
        if cl.get("role_of") and classes[index[cl["role_of"]]]["module"] != cl["module"]:
            cl["role_of"] = None
            cl["fields"] = [f for f in cl["fields"] if not f.get("required")]
    # MRO sanity for two bases: drop the second if it is an ancestor/descendant of the first
    def ancestors(nm):
        out = set()
        for b in classes[index[nm]]["bases"]:
            out.add(b)
            out |= ancestors(b)
        return out
    for cl in classes:
        if len(cl["bases"]) == 2:
            a, b = cl["bases"]
            if a in ancestors(b) or b in ancestors(a) or a == b:
                cl["bases"] = [a]
    in_diagram = [nm for nm in names if c.chance(0.85)]
    if len(in_diagram) < 2:
        in_diagram = names[:2]
    order1 = c.shuffle(in_diagram)
    order2 = c.shuffle(in_diagram)
    ops = []
    n_ops = c.int(5, 30)
    for _ in range(n_ops):
        kind = c.weighted([("read", 10), ("derive", 3), ("render", 1.5 if symbol_family else 0), ("recheck", 1), ("readd", 1)])
        if kind == "read":
            ops.append(["read", c.int(0, 3), c.pick(READS), c.int(0, n - 1)])
        elif kind == "derive":
            ops.append(["derive", c.int(0, 3), c.chance(0.5)])
        elif kind == "render":
            ops.append(["render", c.chance(0.7)])
        elif kind == "readd":
            # add_node for a class the receiver already contains (by class or by the wrapped class of ANOTHER diagram,
            # which a derived view shares with its source): a no-op that must leave every diagram as it is
            ops.append(["readd", c.int(0, 3), c.int(0, n - 1), c.pick(["class", "own_node", "foreign_node"]), c.int(0, 3)])
        else:
            ops.append(["recheck"])
    return {"property": "C17", "machine": "diagram_sim", "symbol_family": symbol_family, "decoy": two_modules and c.chance(0.6), "future_annotations": c.chance(0.3), "second_family": c.chance(0.35),
            "classes": classes, "in_diagram": in_diagram, "order1": order1, "order2": order2, "ops": ops}


READS = ["wrapped_classes", "associations", "inheritance_relations", "get_out_edges", "get_outgoing_relations", "get_associations_with_condition",
         "get_neighbors_with_relation_type", "get_outgoing_neighbors_with_relation_type", "get_incoming_neighbors_with_relation_type",
         "get_role_taker_associations_of_cls", "parent_map", "all_ancestors", "get_assoc_keys_by_source", "get_common_role_taker_associations", "fields"]


# ------------------------------------------------------------------------- world construction


def annotation(f: Dict) -> str:
    k, t = f["kind"], f["target"]
    if k == "private":
        k = f["inner"]
    if k == "builtin" or k == "enum" or k == "one_to_one":
        text = t
    elif k in ("opt_builtin", "opt_enum", "opt_one"):
        text = f"Optional[{t}]"
    elif k in ("list_builtin", "one_to_many"):
        text = f"Tuple[{t}, ...]" if f["container"] == "Tuple" else f"{f['container']}[{t}]"
    elif k == "type_valued":
        text = f"Type[{t}]"
    else:
        raise ValueError(k)
    if f["as_string"] == "inner" and text != t:
        # only the class name is quoted: Optional["X"], List["X"], Type["X"]
        return text.replace(f"[{t}]", f"[{t!r}]").replace(f"[{t}, ...]", f"[{t!r}, ...]")
    return repr(text) if f["as_string"] else text


def default_of(f: Dict) -> str:
    k = f["kind"] if f["kind"] != "private" else f["inner"]
    if k == "builtin":
        return {"int": "0", "str": "''", "float": "0.0", "bool": "False"}[f["target"]]
    if k == "enum":
        return f"{f['target']}.RED"
    if k in ("list_builtin", "one_to_many"):
        return "()" if f["container"] == "Tuple" else "field(default_factory=%s)" % ("list" if f["container"] == "List" else "set")
    return "None"


def source_of(scenario: Dict, module: str) -> str:
    lines = ["from __future__ import annotations"] if scenario.get("future_annotations") else []
    lines += ["from dataclasses import dataclass, field", "from typing import Optional, List, Set, Tuple, Type", "import enum"]
    if scenario.get("symbol_family"):
        lines.append("from krrood.entity_query_language.predicate import Symbol")
    if any(cl.get("role_of") for cl in scenario["classes"]):
        lines.append("from krrood.class_diagrams.utils import Role")
    lines += ["", "class Color(enum.Enum):", "    RED = 1", "    BLUE = 2", "",
              "class Level(enum.IntEnum):", "    RED = 1", "    HIGH = 2", "",
              "class Tone(str, enum.Enum):", "    RED = 'r'", "    DARK = 'd'", ""]
    for cl in scenario["classes"]:
        if cl["module"] != module:
            continue
        bases = list(cl["bases"])
        if scenario.get("symbol_family") and not bases:
            bases = ["Symbol"]
        if cl.get("role_of"):
            bases = [f"Role[{cl['role_of']}]"] + bases
        head = f"class {cl['name']}({', '.join(bases)}):" if bases else f"class {cl['name']}:"
        lines.append("@dataclass(eq=False)")
        lines.append(head)
        if not cl["fields"]:
            lines.append("    pass")
        for f in cl["fields"]:
            if f.get("required"):
                lines.append(f"    {f['name']}: {annotation(f)}")
            else:
                lines.append(f"    {f['name']}: {annotation(f)} = {default_of(f)}")
        lines.append("")
    return "\n".join(lines)


def make_world(scenario: Dict, suffix: str = "") -> Dict[str, type]:
    mods = {}
    if scenario.get("decoy"):
        decoy = types.ModuleType("simd_a_decoy")
        sys.modules["simd_a_decoy"] = decoy
        src = ["from dataclasses import dataclass", ""]
        for cl in scenario["classes"]:
            src += ["@dataclass", f"class {cl['name']}:", "    decoy: int = 0", ""]
        exec(compile("\n".join(src), "simd_a_decoy", "exec", dont_inherit=True), decoy.__dict__)
    for m in ("a", "b"):
        if not any(cl["module"] == m for cl in scenario["classes"]):
            continue
        mod = types.ModuleType(f"simd{suffix}_fam_{m}")
        sys.modules[mod.__name__] = mod
        # dont_inherit: this file postpones the evaluation of its annotations, the generated modules must not
        exec(compile(source_of(scenario, m), mod.__name__, "exec", dont_inherit=True), mod.__dict__)
        mods[m] = mod
    return {cl["name"]: getattr(mods[cl["module"]], cl["name"]) for cl in scenario["classes"]}


# ------------------------------------------------------------------------- ground truth


def ground_truth(scenario: Dict, members: List[str]) -> Dict:
    cls_by_name = {cl["name"]: cl for cl in scenario["classes"]}
    memberset = set(members)

    def all_fields(name) -> List[Dict]:
        """dataclass fields in MRO order (inherited first), as dataclasses.fields() reports them"""
        seen, order = {}, []
        def mro(nm):
            # C3 is not needed for the set of fields, only for which definition wins; names are unique per class
            out = [nm]
            for b in cls_by_name[nm]["bases"]:
                out += mro(b)
            return out
        for nm in reversed(mro(name)):
            for f in cls_by_name[nm]["fields"]:
                if f["name"] not in seen:
                    seen[f["name"]] = f
                    order.append(f)
        return order

    inh = set()
    assoc = set()
    for name in members:
        for b in cls_by_name[name]["bases"]:
            if b in memberset:
                inh.add(("inh", b, name, ""))
        for f in all_fields(name):
            if f["kind"] == "private" or f["name"].startswith("_"):
                continue
            if f["target"] in memberset and f["kind"] in ("one_to_one", "opt_one", "one_to_many", "type_valued"):
                assoc.add(("assoc", name, f["target"], f["name"]))
    return {"nodes": sorted(members), "edges": sorted(inh | assoc), "all_fields": {nm: all_fields(nm) for nm in members}}


def derived_truth(truth: Dict, include_field_name: bool) -> List[tuple]:
    """Expected edges of to_subdiagram_without_inherited_associations."""
    parents: Dict[str, set] = {}
    for (k, s, t, f) in truth["edges"]:
        if k == "inh":
            parents.setdefault(t, set()).add(s)

    def ancestors(nm):
        out, stack = set(), list(parents.get(nm, ()))
        while stack:
            cur = stack.pop()
            if cur not in out:
                out.add(cur)
                stack.extend(parents.get(cur, ()))
        return out

    keys: Dict[str, set] = {}
    for (k, s, t, f) in truth["edges"]:
        if k == "assoc":
            keys.setdefault(s, set()).add((t, f) if include_field_name else (t,))
    out = []
    for e in truth["edges"]:
        k, s, t, f = e
        if k == "assoc":
            key = (t, f) if include_field_name else (t,)
            if any(key in keys.get(a, set()) for a in ancestors(s)):
                continue
        out.append(e)
    return sorted(out)


# ------------------------------------------------------------------------- observation


def normalise(diagram: ClassDiagram) -> Dict:
    nodes = sorted(w.clazz.__name__ for w in diagram.wrapped_classes)
    edges = []
    g = diagram._dependency_graph
    for (u, v) in g.edge_list():
        pass
    for edge in g.edges():
        if isinstance(edge, Inheritance):
            edges.append(("inh", edge.source.clazz.__name__, edge.target.clazz.__name__, ""))
        elif isinstance(edge, Association):
            edges.append(("assoc", edge.source.clazz.__name__, edge.target.clazz.__name__, edge.field.public_name))
        else:
            edges.append(("other", str(type(edge).__name__), "", ""))
    return {"nodes": nodes, "edges": sorted(edges)}


def public_view(diagram: ClassDiagram) -> Dict:
    """The same information through the public accessors only."""
    nodes = sorted(w.clazz.__name__ for w in diagram.wrapped_classes)
    edges = [("inh", r.source.clazz.__name__, r.target.clazz.__name__, "") for r in diagram.inheritance_relations]
    edges += [("assoc", r.source.clazz.__name__, r.target.clazz.__name__, r.field.public_name) for r in diagram.associations]
    return {"nodes": nodes, "edges": sorted(edges)}


def _name(x):
    if isinstance(x, WrappedClass):
        return x.clazz.__name__
    if isinstance(x, Association):
        return ["assoc", x.source.clazz.__name__, x.target.clazz.__name__, x.field.public_name]
    if isinstance(x, Inheritance):
        return ["inh", x.source.clazz.__name__, x.target.clazz.__name__]
    if isinstance(x, type):
        return x.__name__
    if isinstance(x, (list, tuple, set, frozenset)):
        return sorted((_name(y) for y in x), key=kernel.canonical)
    if isinstance(x, dict):
        return sorted(([_name(k), _name(v)] for k, v in x.items()), key=kernel.canonical)
    if x is None or isinstance(x, (int, str, bool)):
        return x
    return type(x).__name__


def do_read(diagram: ClassDiagram, what: str, cls: type):
    if what == "wrapped_classes":
        return _name(diagram.wrapped_classes)
    if what == "associations":
        return _name(diagram.associations)
    if what == "inheritance_relations":
        return _name(diagram.inheritance_relations)
    if what == "get_out_edges":
        return _name(diagram.get_out_edges(cls))
    if what == "get_outgoing_relations":
        return _name(list(diagram.get_outgoing_relations(cls)))
    if what == "get_associations_with_condition":
        return _name(list(diagram.get_associations_with_condition(cls, lambda a: True)))
    if what == "get_neighbors_with_relation_type":
        return _name(diagram.get_neighbors_with_relation_type(cls, Association))
    if what == "get_outgoing_neighbors_with_relation_type":
        return _name(diagram.get_outgoing_neighbors_with_relation_type(cls, Association)) + _name(diagram.get_outgoing_neighbors_with_relation_type(cls, Inheritance))
    if what == "get_incoming_neighbors_with_relation_type":
        return _name(diagram.get_incoming_neighbors_with_relation_type(cls, Inheritance)) + _name(diagram.get_incoming_neighbors_with_relation_type(cls, Association))
    if what == "get_role_taker_associations_of_cls":
        return _name(diagram.get_role_taker_associations_of_cls(cls))
    if what == "get_common_role_taker_associations":
        return _name(list(diagram.get_common_role_taker_associations(cls, cls)))
    if what == "parent_map":
        return sorted([k, sorted(v)] for k, v in diagram.parent_map.items())
    if what == "all_ancestors":
        return sorted(diagram.all_ancestors(diagram.get_wrapped_class(cls).index))
    if what == "get_assoc_keys_by_source":
        d = diagram.get_assoc_keys_by_source(True)
        return sorted([k, sorted(str(x[1].__name__) + "." + x[2] for x in v)] for k, v in d.items())
    if what == "fields":
        return sorted(f.public_name for f in diagram.get_wrapped_class(cls).fields)
    raise ValueError(what)


# ------------------------------------------------------------------------- execution


def execute(scenario: Dict) -> Dict:
    log, counters = kernel.EventLog(), kernel.Counters()
    verdicts: List[Dict] = []
    try:
        classes = make_world(scenario)
    except TypeError as e:  # inconsistent MRO etc.: the generated family is not valid Python
        counters.inc("note.invalid_family")
        counters.inc("runs")
        log.add("invalid-family", str(e)[:80])
        return {"verdicts": [], "digest": log.digest(), "counters": dict(counters), "nontrivial": False, "shape": 0}
    members1 = [m for m in scenario["order1"] if m in classes]
    truth = ground_truth(scenario, members1)
    diagrams: List[Dict] = []  # {"d": ClassDiagram, "snap": normalised, "truth": expected edges, "origin": text}

    def add_diagram(d, expected_edges, origin):
        diagrams.append({"d": d, "snap": normalise(d), "truth": expected_edges, "origin": origin})

    try:
        d1 = ClassDiagram([classes[m] for m in members1])
        d2 = ClassDiagram([classes[m] for m in scenario["order2"] if m in classes])
    except Exception as e:
        verdicts.append(kernel.verdict("C17.build", f"building the diagram raised {type(e).__name__}: {e}", aspect="exception", where="build"))
        counters.inc("runs")
        return {"verdicts": verdicts, "digest": log.digest(), "counters": dict(counters), "nontrivial": True, "shape": 0}
    add_diagram(d1, truth["edges"], "order1")
    add_diagram(d2, truth["edges"], "order2")

    def check_all(after: str) -> bool:
        for k, rec in enumerate(diagrams):
            now = normalise(rec["d"])
            if now != rec["snap"]:
                lost = [e for e in rec["snap"]["edges"] if e not in now["edges"]]
                gained = [e for e in now["edges"] if e not in rec["snap"]["edges"]]
                verdicts.append(kernel.verdict("C17.snapshot", f"after {after}: diagram #{k} ({rec['origin']}) changed: lost {lost[:4]}, gained {gained[:4]}, nodes {now['nodes'] if now['nodes'] != rec['snap']['nodes'] else 'same'}", aspect="lost-edges" if lost else "changed", where=after.split(" ")[0]))
                return False
            if rec["truth"] is not None and (now["edges"] != rec["truth"] or now["nodes"] != sorted(members1)):  # source diagrams only
                missing = [e for e in rec["truth"] if e not in now["edges"]]
                extra = [e for e in now["edges"] if e not in rec["truth"]]
                kind = (missing or extra)[0][0]
                verdicts.append(kernel.verdict("C17.mirror", f"diagram #{k} ({rec['origin']}): edges missing {missing[:4]}, unexpected {extra[:4]}", aspect=("missing-" if missing else "extra-") + kind, where=rec["origin"].split(" ")[0]))
                return False
            pub = public_view(rec["d"])
            if pub != now:
                verdicts.append(kernel.verdict("C17.stable", f"after {after}: diagram #{k}: the public accessors report {pub} but the graph holds {now}", aspect="accessors", where=after.split(" ")[0]))
                return False
            # cached per-class answers against the uncached edge list
            for name in now["nodes"]:
                cached = sorted(kernel.canonical(x) for x in _name(rec["d"].get_out_edges(classes[name])))
                fresh = sorted(kernel.canonical(list(e[:1]) + [e[1], e[2]] + ([e[3]] if e[0] == "assoc" else [])) for e in now["edges"] if e[1] == name)
                if cached != fresh:
                    verdicts.append(kernel.verdict("C17.stable", f"after {after}: diagram #{k}: get_out_edges({name}) answers {cached}, the diagram's edges from it are {fresh}", aspect="stale-cache", where=after.split(" ")[0]))
                    return False
        return True

    def classify(diagram, origin, classes=classes) -> bool:
        for name in members1:
            wc = diagram.get_wrapped_class(classes[name])
            got = {f.public_name: f for f in wc.fields}
            for f in truth["all_fields"][name]:
                if f["kind"] == "private":
                    if f["name"] in got:
                        verdicts.append(kernel.verdict("C17.classify", f"{origin}: private field {name}.{f['name']} is reported as a diagram field", aspect="private", where="classify"))
                        return False
                    continue
                if f["name"] not in got:
                    verdicts.append(kernel.verdict("C17.classify", f"{origin}: field {name}.{f['name']} ({f['kind']}) is not reported", aspect="missing-field", where="classify"))
                    return False
                wf = got[f["name"]]
                true_, false_ = TABLE[f["kind"]]
                try:
                    for p in true_:
                        if not getattr(wf, p):
                            verdicts.append(kernel.verdict("C17.classify", f"{origin}: {name}.{f['name']}: {annotation(f)} ({f['kind']}): {p} is False", aspect=f["kind"] + ":" + p, where="classify"))
                            return False
                    for p in false_:
                        if getattr(wf, p):
                            verdicts.append(kernel.verdict("C17.classify", f"{origin}: {name}.{f['name']}: {annotation(f)} ({f['kind']}): {p} is True", aspect=f["kind"] + ":" + p, where="classify"))
                            return False
                    endpoint = wf.type_endpoint
                except Exception as e:
                    verdicts.append(kernel.verdict("C17.classify", f"{origin}: classifying {name}.{f['name']}: {annotation(f)} raised {type(e).__name__}: {e}", aspect=f["kind"] + ":exception", where="classify"))
                    return False
                want = f["target"]
                got_name = getattr(endpoint, "__name__", str(endpoint))
                if got_name != want or (want in classes and want in members1 and endpoint is not classes[want]):
                    verdicts.append(kernel.verdict("C17.classify", f"{origin}: {name}.{f['name']}: {annotation(f)}: type_endpoint is {endpoint!r}, declared {want}", aspect=f["kind"] + ":endpoint", where="classify"))
                    return False
        return True

    ok = check_all("build") and classify(d1, "order1") and classify(d2, "order2")
    if ok and normalise(d1) != normalise(d2):
        verdicts.append(kernel.verdict("C17.order", "two orders of the class list give different diagrams", aspect="order", where="build"))
        ok = False
    sg_snapshot = None
    answers: Dict[tuple, str] = {}
    tmpdir = None
    derived_count = 0
    if ok:
        for n, op in enumerate(scenario["ops"]):
            kind = op[0]
            try:
                if kind == "read":
                    rec = diagrams[op[1] % len(diagrams)]
                    cls = classes[members1[op[3] % len(members1)]]
                    a1 = do_read(rec["d"], op[2], cls)
                    a2 = do_read(rec["d"], op[2], cls)
                    counters.inc("op.read")
                    log.add("read", op[1] % len(diagrams), op[2], a1)
                    if kernel.canonical(a1) != kernel.canonical(a2):
                        verdicts.append(kernel.verdict("C17.stable", f"op {n}: {op[2]} answered {a1} and then {a2}", aspect="unstable", where="read"))
                        break
                    # a diagram never changes, so neither may its answers: the first answer to a question is remembered
                    key = (op[1] % len(diagrams), op[2], cls.__name__ if op[2] not in ("wrapped_classes", "associations", "inheritance_relations", "parent_map", "get_assoc_keys_by_source") else "")
                    first = answers.setdefault(key, kernel.canonical(a1))
                    if first != kernel.canonical(a1):
                        verdicts.append(kernel.verdict("C17.stable", f"op {n}: {op[2]} of diagram #{key[0]} now answers {a1}; earlier in this history it answered {first}", aspect="changed-over-history", where="read"))
                        break
                elif kind == "derive":
                    rec = diagrams[op[1] % len(diagrams)]
                    sub = rec["d"].to_subdiagram_without_inherited_associations(op[2])
                    # What a derived view contains is not part of the property (only that deriving it leaves the
                    # source intact), so the model of its contents is a probe, never a verdict.
                    if rec["truth"] is not None and normalise(sub)["edges"] != derived_truth({"edges": rec["truth"]}, op[2]):
                        counters.inc("probe.derived_view_differs_from_model")
                    add_diagram(sub, None, f"derived from #{op[1] % len(diagrams)} include_field_name={op[2]}")
                    derived_count += 1
                    counters.inc("fault.derive_view")
                elif kind == "render":
                    from krrood.entity_query_language.symbol_graph import SymbolGraph

                    sg = SymbolGraph()
                    if sg_snapshot is None:
                        sg_snapshot = normalise(sg.class_diagram)
                    if tmpdir is None:
                        tmpdir = tempfile.mkdtemp(prefix="simd_")
                    try:
                        sg.to_dot(os.path.join(tmpdir, f"g{n}"), format_="raw", graph_type="type", without_inherited_associations=op[1])
                        counters.inc("fault.render")
                    except ImportError:
                        counters.inc("probe.render_unavailable")
                    now = normalise(sg.class_diagram)
                    if now != sg_snapshot:
                        lost = [e for e in sg_snapshot["edges"] if e not in now["edges"]]
                        verdicts.append(kernel.verdict("C17.snapshot", f"op {n}: rendering the symbol graph's type diagram changed it: lost {lost[:4]}", aspect="lost-edges", where="render"))
                        break
                elif kind == "readd":
                    rec = diagrams[op[1] % len(diagrams)]
                    cls = classes[members1[op[2] % len(members1)]]
                    if op[3] == "class":
                        rec["d"].add_node(cls)
                    elif op[3] == "own_node":
                        rec["d"].add_node(rec["d"].get_wrapped_class(cls))
                    else:
                        rec["d"].add_node(diagrams[op[4] % len(diagrams)]["d"].get_wrapped_class(cls))
                    counters.inc("fault.add_node_for_contained_class")
                elif kind == "recheck":
                    if not (classify(d1, "order1 (again)")):
                        break
            except Exception as e:
                verdicts.append(kernel.verdict("C17.exception", f"op {n} {op} raised {type(e).__name__}: {e}", aspect=type(e).__name__, where=kind))
                break
            if not check_all(f"{kind} op {n}"):
                break
    if not verdicts and scenario.get("second_family"):
        # another family of the same shape in the same process: new class objects with the same names
        # (whatever krrood remembered about the first family by name must not leak into this one)
        try:
            classes2 = make_world(scenario, suffix="2")
            d3 = ClassDiagram([classes2[m] for m in members1])
            counters.inc("fault.second_family_same_names")
            now = normalise(d3)
            if now["edges"] != truth["edges"] or now["nodes"] != sorted(members1):
                missing = [e for e in truth["edges"] if e not in now["edges"]]
                extra = [e for e in now["edges"] if e not in truth["edges"]]
                verdicts.append(kernel.verdict("C17.mirror", f"second family with the same class names: edges missing {missing[:4]}, unexpected {extra[:4]}", aspect=("missing-" if missing else "extra-") + (missing or extra)[0][0], where="second-family"))
            else:
                classify(d3, "second family", classes2)
        except Exception as e:
            verdicts.append(kernel.verdict("C17.build", f"building the diagram of a second family with the same class names raised {type(e).__name__}: {e}", aspect="exception", where="second-family"))
    if tmpdir:
        shutil.rmtree(tmpdir, ignore_errors=True)
    has_inherited_assoc = any(e[0] == "assoc" for e in truth["edges"]) and any(e[0] == "inh" for e in truth["edges"])
    if derived_count and has_inherited_assoc:
        counters.inc("probe.derived_view_of_family_with_inheritance_and_associations")
    if any(f["as_string"] for cl in scenario["classes"] for f in cl["fields"]):
        counters.inc("probe.forward_reference")
    if scenario.get("decoy"):
        counters.inc("probe.decoy_module")
    if any(cl.get("role_of") and cl["name"] in members1 and cl["role_of"] in members1 for cl in scenario["classes"]):
        counters.inc("probe.role_with_role_taker_in_diagram")
    counters.inc("ops", len(scenario["ops"]))
    counters.inc("runs")
    nontrivial = len(truth["edges"]) >= 1 and len(scenario["ops"]) >= 1
    shape = kernel.short_hash([[(cl["bases"], [(f["kind"], f["as_string"]) for f in cl["fields"]]) for cl in scenario["classes"]], scenario["order1"], [op[:3] for op in scenario["ops"]]])
    return {"verdicts": verdicts, "digest": log.digest(), "counters": dict(counters), "nontrivial": nontrivial, "shape": shape}


def same_class(a: Dict, b: Dict) -> bool:
    return a["rule"] == b["rule"] and a["features"].get("aspect") == b["features"].get("aspect")


def same_target(a, b):
    return same_class(a, b)


def neutralise(scenario, name, verdict):
    return None


DDMIN_KEYS = ["ops"]


def shrink_candidates(sc: Dict):
    # drop fields, then classes nobody refers to
    for ci, cl in enumerate(sc["classes"]):
        for fi in range(len(cl["fields"])):
            c = copy.deepcopy(sc)
            del c["classes"][ci]["fields"][fi]
            yield c
    names = [cl["name"] for cl in sc["classes"]]
    for ci in range(len(sc["classes"]) - 1, -1, -1):
        nm = names[ci]
        referenced = any(nm in cl["bases"] or cl.get("role_of") == nm for cl in sc["classes"]) or any(f["target"] == nm for cl in sc["classes"] for f in cl["fields"])
        if not referenced and len(sc["classes"]) > 2:
            c = copy.deepcopy(sc)
            del c["classes"][ci]
            for key in ("in_diagram", "order1", "order2"):
                c[key] = [x for x in c[key] if x != nm]
            if len(c["order1"]) >= 1:
                yield c
    for ci, cl in enumerate(sc["classes"]):
        if cl["bases"]:
            c = copy.deepcopy(sc)
            c["classes"][ci]["bases"] = cl["bases"][:-1]
            yield c
    if sc.get("decoy"):
        c = copy.deepcopy(sc)
        c["decoy"] = False
        yield c
