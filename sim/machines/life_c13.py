"""
C13 on Sim-L: a domain-less variable ranges over exactly the live instances of its type.

History ops: create / drop / tie / gc / sweep / clear / declare / query / requery /
resume / release.  Oracle: a census with explicit don't-cares (see DESIGN.md).
"""
from __future__ import annotations

from typing import Dict, List

from .. import kernel
from ..kernel import Chooser
from ..worlds import oworld
from .lifecycle_sim import World, result

from krrood.entity_query_language.entity import let, entity
from krrood.entity_query_language.quantify_entity import an

TYPES = ["T0", "T1", "T2", "T3", "T4", "U0", "F0"]


def generate(rng, cfg: Dict) -> Dict:
    c = Chooser(rng)
    ops: List[list] = []
    live: List[int] = []
    next_h = 0
    declared: List[int] = []
    queries: List[int] = []
    open_tasks: List[int] = []
    n_ops = c.int(6, 40)
    n_late = 0
    w_clear = c.pick([0.0, 0.03, 0.08])
    w_tie = c.pick([0.0, 0.08])
    diamond_bias = c.chance(0.3)
    for _ in range(n_ops):
        r = rng.random()
        if (r < 0.30 or not live) and len(live) < 12:
            cls = c.weighted([("T0", 3), ("T1", 3), ("T2", 2), ("T3", 2), ("T4", 4 if diamond_bias else 1.5), ("U0", 1), ("F0", 1.2)])
            ops.append(["create", next_h, cls, next_h])
            live.append(next_h)
            next_h += 1
        elif r < 0.42 and live:
            h = c.pick(live)
            live.remove(h)
            ops.append(["drop", h])
        elif r < 0.42 + w_tie and len(live) >= 2:
            a, b = c.sample(live, 2)
            ops.append(["tie", a, b])
        elif r < 0.56:
            ops.append([c.weighted([("gc", 3), ("sweep", 2)])])
        elif r < 0.56 + w_clear:
            ops.append(["clear"])
        elif r < 0.66:
            d = len(declared)
            declared.append(d)
            ops.append(["declare", d, c.pick(TYPES)])
        elif r < 0.90:
            q = len(queries)
            queries.append(q)
            src = ["d", c.pick(declared)] if declared and c.chance(0.5) else ["T", c.pick(TYPES)]
            mode = c.weighted([("drain", 6), ("take_hold", 2), ("take_drop", 1.5)])
            ops.append(["query", q, src, mode, c.int(0, 3), c.chance(0.25)])
            if mode == "take_hold":
                open_tasks.append(q)
        elif r < 0.96 and queries:
            q = c.pick(queries)
            mode = c.weighted([("drain", 6), ("take_hold", 1), ("take_drop", 1)])
            ops.append(["requery", q, mode, c.int(0, 3)])
        elif open_tasks:
            if c.chance(0.3):
                ops.append(["resume_creating", c.pick(open_tasks), c.pick(["T0", "T1", "T4"])])
            else:
                ops.append(["resume", c.pick(open_tasks)])
        elif c.chance(0.5) and n_late < 2:
            # a subclass that is DEFINED in the middle of the history
            n_late += 1
            late = f"L{n_late}"
            ops.append(["defclass", late, c.pick(["T0", "T1", "T3"])])
            ops.append(["create", next_h, late, next_h])
            live.append(next_h)
            next_h += 1
        else:
            ops.append(["gc"])
    # histories end with a drained query so that the final state is judged
    if declared and c.chance(0.5):
        ops.append(["query", len(queries), ["d", c.pick(declared)], "drain", 0, False])
    else:
        ops.append(["query", len(queries), ["T", c.pick(["T0", "T1", "T3"])], "drain", 0, False])
    return {"property": "C13", "machine": "lifecycle_sim", "salt": c.int(0, 1 << 30), "ops": ops}


def execute(scenario: Dict) -> Dict:
    log, counters = kernel.EventLog(), kernel.Counters()
    verdicts: List[Dict] = []
    world = World(scenario.get("salt", 0), log, counters)
    declared: Dict[int, Dict] = {}
    queries: Dict[int, Dict] = {}
    tasks: Dict[int, Dict] = {}
    held: Dict[int, list] = {}
    nontrivial = False
    disturbed = False  # a drop / gc / clear happened before a query
    created_since_query = False

    late_classes: Dict[str, type] = {}
    subclasses = {k: list(v) for k, v in oworld.SUBCLASSES.items()}

    def judge(qrec, results, started_seq, started_epoch, complete, via, must_throughout=False):
        tname = qrec["type"]
        wanted = set(subclasses[tname])
        serials = []
        for obj in results:
            if obj is None:
                verdicts.append(kernel.verdict("C13.foreign", f"a query over {tname} returned None", structure="none", **via))
                return
            if type(obj).__name__ not in wanted:
                verdicts.append(kernel.verdict("C13.foreign", f"a query over {tname} returned {obj!r}", structure="type", **via))
                return
            serials.append(obj.serial)
        dup = sorted({s for s in serials if serials.count(s) > 1})
        if dup:
            classes = sorted({world.by_serial[s]["cls"] for s in dup})
            verdicts.append(kernel.verdict("C13.duplicate", f"a query over {tname} returned instances {dup} more than once (classes {classes})", structure="diamond" if classes == ["T4"] else "other", **via))
            return
        if not complete and not must_throughout:
            return
        # complete: everything the program holds that existed when the query started.
        # resumed to exhaustion: everything that existed when it started and that the program STILL holds (an instance
        # that was there all along cannot be skipped, whatever else was created or dropped in the meantime)
        must = [rec["serial"] for rec in world.census
                if rec["cls"] in wanted and not rec["dropped"] and rec["epoch"] == started_epoch == world.epoch and rec["seq"] <= started_seq]
        missing = sorted(set(must) - set(serials))
        if missing:
            verdicts.append(kernel.verdict("C13.missing", f"a query over {tname} misses live instances {missing} (returned {sorted(serials)})", structure="missing", **via))

    def run_query(q, mode, k, via):
        nonlocal nontrivial, created_since_query
        qrec = queries[q]
        counters.inc("op.query." + mode)
        if disturbed or via.get("requery_or_predeclared"):
            nontrivial = True
        started_seq, started_epoch = world.seq, world.epoch
        try:
            it = qrec["query"].evaluate()
            results = []
            if mode == "drain":
                for r in it:
                    results.append(r)
                    if len(results) > 200:
                        break
                complete = True
            else:
                for _ in range(k):
                    try:
                        results.append(next(it))
                    except StopIteration:
                        break
                complete = False
        except Exception as e:
            log.add("query-exc", q, type(e).__name__)
            verdicts.append(kernel.verdict("C13.exception", f"evaluating a query over {qrec['type']} raised {type(e).__name__}: {e}", structure="exception", **via))
            return
        log.add("query", q, mode, sorted(getattr(r, "serial", -1) for r in results))
        judge(qrec, results, started_seq, started_epoch, complete, via)
        if mode == "take_hold":
            tasks[q] = {"it": it, "results": results, "seq": started_seq, "epoch": started_epoch, "via": via}
        elif c_hold(q):
            held[q] = results
        created_since_query = False

    def c_hold(q):
        # deterministic pseudo-choice: hold the results of every third query
        return q % 3 == 0

    for op in scenario["ops"]:
        kind = op[0]
        if kind == "defclass":
            from dataclasses import dataclass as _dc

            name, base = op[1], op[2]
            if name not in late_classes and base in oworld.HIERARCHY:
                cls = _dc(eq=False, repr=False)(type(name, (oworld.HIERARCHY[base],), {}))
                late_classes[name] = cls
                import sim.machines.lifecycle_sim as _ls

                _ls.ALL_CLASSES[name] = cls
                for t, subs in subclasses.items():
                    if base in subs:
                        subs.append(name)
                subclasses[name] = [name]
                counters.inc("fault.class_defined_late")
        elif kind == "create":
            if op[2] in oworld.HIERARCHY or op[2] in late_classes:
                if world.create(op[1], op[2], op[3]) is not None:
                    created_since_query = True
        elif kind == "drop":
            if world.drop(op[1]):
                disturbed = True
        elif kind == "tie":
            world.tie(op[1], op[2])
        elif kind == "gc":
            world.gc()
            disturbed = True
        elif kind == "sweep":
            world.sweep()
        elif kind == "clear":
            world.clear()
            disturbed = True
        elif kind == "declare":
            if op[1] not in declared and op[2] in oworld.HIERARCHY:
                declared[op[1]] = {"var": let(oworld.HIERARCHY[op[2]], None), "type": op[2], "seq": world.seq, "epoch": world.epoch}
                counters.inc("op.declare")
        elif kind == "query":
            _, q, src, mode, k, with_cond = op
            if q in queries:
                counters.inc("ops_skipped")
                continue
            predeclared = False
            if src[0] == "d":
                if src[1] not in declared:
                    counters.inc("ops_skipped")
                    continue
                d = declared[src[1]]
                var, tname = d["var"], d["type"]
                predeclared = d["seq"] != world.seq or d["epoch"] != world.epoch or d.get("used", False)
                d["used"] = True
            else:
                if src[1] not in oworld.HIERARCHY:
                    counters.inc("ops_skipped")
                    continue
                tname = src[1]
                var = let(oworld.HIERARCHY[tname], None)
            query = an(entity(var, var.serial >= 0)) if with_cond else an(entity(var))
            queries[q] = {"query": query, "type": tname}
            if predeclared:
                counters.inc("probe.predeclared_variable_used_later")
            run_query(q, mode, k, {"requery_or_predeclared": bool(predeclared)})
        elif kind == "requery":
            _, q, mode, k = op
            if q not in queries or q in tasks:
                counters.inc("ops_skipped")
                continue
            counters.inc("probe.requery")
            if created_since_query:
                counters.inc("probe.requery_after_create")
            run_query(q, mode, k, {"requery_or_predeclared": True})
        elif kind == "resume":
            t = tasks.pop(op[1], None)
            if t is None:
                counters.inc("ops_skipped")
                continue
            try:
                for r in t["it"]:
                    t["results"].append(r)
                    if len(t["results"]) > 200:
                        break
            except Exception as e:
                verdicts.append(kernel.verdict("C13.exception", f"resuming a partially consumed evaluation raised {type(e).__name__}: {e}", structure="exception", **t["via"]))
                continue
            log.add("resume", op[1], sorted(getattr(r, "serial", -1) for r in t["results"]))
            # instances created or dropped while the evaluation was open are don't-cares; instances that were there
            # when it started and are still held now must have been delivered
            judge(queries[op[1]], t["results"], t["seq"], t["epoch"], False, t["via"], must_throughout=True)
        elif kind == "resume_creating":
            # the consumer creates one new instance per result it takes: the enumeration must still end
            t = tasks.pop(op[1], None)
            if t is None or op[2] not in oworld.HIERARCHY:
                counters.inc("ops_skipped")
                continue
            counters.inc("fault.creation_during_enumeration")
            cap = len(world.census) + 30
            n = 0
            extra_serial = 5000 + 100 * op[1]
            try:
                for r in t["it"]:
                    t["results"].append(r)
                    n += 1
                    world.create(extra_serial + n, op[2], extra_serial + n)
                    if n > cap:
                        verdicts.append(kernel.verdict("C13.livelock", f"an evaluation over {queries[op[1]]['type']} does not end while the consumer creates one instance per result taken ({n} results so far, {len(world.census)} instances exist)", structure="livelock", **t["via"]))
                        break
            except Exception as e:
                verdicts.append(kernel.verdict("C13.exception", f"resuming a partially consumed evaluation raised {type(e).__name__}: {e}", structure="exception", **t["via"]))
                continue
            judge(queries[op[1]], t["results"], t["seq"], t["epoch"], False, t["via"], must_throughout=not verdicts)
        elif kind == "release":
            held.pop(op[1], None)
        else:
            counters.inc("ops_skipped")
    counters.inc("ops", len(scenario["ops"]))
    shape = kernel.short_hash([[op[0], op[2] if op[0] in ("create", "declare") else None, op[3] if op[0] == "query" else None] for op in scenario["ops"]])
    return result(log, counters, verdicts, nontrivial, shape)
