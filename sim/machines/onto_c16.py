"""
C16 on Sim-O: every way of writing a descriptor-managed collection field keeps the data
and infers alike.  A plain Python list / set of serial numbers receives the same
operations (the model); the graph must equal the closure of every element that ever
became part of the field.
"""
from __future__ import annotations

import gc
from typing import Dict, List

from .. import kernel
from ..kernel import Chooser
from ..worlds import oworld
from .onto_sim import Population, closure, result, PROPS, F2P

from krrood.entity_query_language.symbol_graph import SymbolGraph

TARGETS = {
    "list": {"owner_cls": "Human", "field": "member_of", "elem_cls": "Org"},
    "set": {"owner_cls": "Org", "field": "members", "elem_cls": "Human"},
}


def generate(rng, cfg: Dict) -> Dict:
    c = Chooser(rng)
    kind = c.pick(["list", "set"])
    tgt = TARGETS[kind]
    n_elems = c.int(1, 5)
    population = [[tgt["elem_cls"], i] for i in range(n_elems)]
    owner = 50
    elems = list(range(n_elems))

    def some(lo=0, hi=4):
        return [c.pick(elems) for _ in range(c.int(lo, hi))]

    initial = some(0, 3) if c.chance(0.6) else []
    ops: List[list] = []
    for _ in range(c.int(1, 10)):
        if kind == "list":
            k = c.weighted([("assign", 3), ("self_assign", 2), ("iadd", 2.5), ("append", 3), ("extend", 2), ("insert", 2), ("setitem", 2), ("setslice", 1.5), ("gc", 0.4), ("sweep", 0.4), ("retire", 1.0), ("create_elem", 1.0), ("from_other", 1.2), ("assign_view", 1.5)])
        else:
            k = c.weighted([("assign", 3), ("self_assign", 2), ("ior", 2.5), ("add", 3), ("update", 2), ("gc", 0.4), ("sweep", 0.4), ("retire", 0.8), ("create_elem", 0.8), ("from_other", 1.2), ("assign_view", 1.5)])
        if k in ("assign", "iadd", "extend", "ior", "update"):
            # Python accepts any iterable for extend / update / += and any set-like for |=
            # ("failing": a generator that raises after its last element - the caller catches the exception and carries on;
            # what the container took before the failure is part of the field, as with a plain list / set)
            arg = c.weighted([("same", 5), ("tuple", 1), ("generator", 2), ("iterator", 1), ("other", 1), ("failing", 1.5)]) if k in ("extend", "update", "iadd") else "same"
            ops.append([k, some(0, 4), arg])
        elif k in ("append", "add"):
            ops.append([k, c.pick(elems)])
        elif k in ("insert", "setitem"):
            ops.append([k, c.int(-4, 6), c.pick(elems)])
        elif k == "setslice":
            ops.append([k, c.int(0, 4), c.int(0, 5), some(0, 3)])
        elif k == "assign_view":
            # the assigned value is a lazily evaluated iterable that READS the field being assigned
            view = c.pick(["generator", "filter", "chain", "reversed"] if kind == "list" else ["generator", "filter", "chain"])
            ops.append([k, view, c.pick(elems), c.pick(elems)])
        elif k == "from_other":
            # another instance of the owner's class gets some contents, then its LIVE field is assigned to the owner
            ops.append([k, some(0, 3)])
        elif k == "retire":
            victim = c.pick(elems)
            if kind == "list" and c.chance(0.6):
                # the element is first pushed out of the field by an item assignment
                ops.append(["setitem", c.int(0, 3), c.pick([e for e in elems if e != victim] or elems)])
            ops.append([k, victim])
            if c.chance(0.6):
                # ... and a brand-new element (most likely allocated where the retired one was) is written right away
                new_serial = 10 + len(elems)
                elems.append(new_serial)
                ops.append(["create_elem", new_serial])
                ops.append(["append", new_serial] if kind == "list" else ["add", new_serial])
        elif k == "create_elem":
            new_serial = 10 + len(elems)
            elems.append(new_serial)
            ops.append([k, new_serial])
        else:
            ops.append([k])
    if c.chance(0.1):
        # last op of the history: the program keeps only the collection, its owner dies, and the collection is handed to
        # the constructor of a new instance (most likely allocated where the dead owner was), which is then written
        ops.append(["heir_write", c.pick(["append", "iadd"] if kind == "list" else ["add", "ior"]), c.pick(elems), c.chance(0.7)])
    elif c.chance(0.12):
        # last op of the history: a shallow copy of the owner (it shares the container object, as plain Python objects
        # do) is written through; the written element must be recorded for the copy
        ops.append(["alias_write", c.pick(["append", "iadd"] if kind == "list" else ["add", "ior"]), c.pick(elems)])
    return {"property": "C16", "machine": "onto_sim", "salt": c.int(0, 1 << 30), "kind": kind, "population": population, "owner": owner, "initial": initial, "ops": ops}


def execute(scenario: Dict) -> Dict:
    log, counters = kernel.EventLog(), kernel.Counters()
    verdicts: List[Dict] = []
    kind = scenario["kind"]
    tgt = TARGETS[kind]
    field = tgt["field"]
    prop = F2P[(tgt["owner_cls"], field)]
    pop = Population(scenario.get("salt", 0))
    for desc in scenario["population"]:
        pop.create(desc)
    owner_serial = scenario.get("owner", 50)

    def objs(serials):
        return [pop.objs[s] for s in serials if s in pop.objs]

    def as_argument(values, arg_kind, default):
        """The same elements handed over as another kind of iterable."""
        if arg_kind == "tuple":
            return tuple(values)
        if arg_kind == "generator":
            counters.inc("fault.one_shot_argument")
            return (v for v in values)
        if arg_kind == "iterator":
            counters.inc("fault.one_shot_argument")
            return iter(list(values))
        if arg_kind == "other":
            return set(values) if default is list else list(values)
        if arg_kind == "failing":
            counters.inc("fault.argument_raises_midway")

            def failing():
                yield from values
                raise oworld.InjectedFault("the iterable failed")

            return failing()
        return default(values)

    initial = [s for s in scenario.get("initial", []) if s in pop.objs]
    try:
        if kind == "list":
            owner = pop.create([tgt["owner_cls"], owner_serial], **{field: objs(initial)})
        else:
            owner = pop.create([tgt["owner_cls"], owner_serial], **{field: set(objs(initial))})
    except Exception as e:
        verdicts.append(kernel.verdict("C16.exception", f"constructing the owner with {field}={initial} raised {type(e).__name__}: {e}", op="construct", kind=kind))
        return result(log, counters, verdicts, False, 0)
    model = list(initial) if kind == "list" else set(initial)
    ever = set(initial)
    retired = set()
    other = [None]  # a second instance of the owner's class (created on demand)
    other_ever = set()
    nontrivial = False

    def check(op_name, n):
        got = [getattr(x, "serial", repr(x)) for x in getattr(owner, field)]
        log.add("state", n, op_name, sorted(got) if kind == "set" else got)
        if kind == "list":
            if got != model:
                aspect = "order-or-multiplicity" if set(got) == set(model) else "content"
                verdicts.append(kernel.verdict("C16.content", f"after op {n} ({op_name}) the list field holds {got}, Python semantics give {model}", op=op_name, kind=kind, aspect=aspect))
                return False
        else:
            if set(got) != model or len(got) != len(set(got)):
                verdicts.append(kernel.verdict("C16.content", f"after op {n} ({op_name}) the set field holds {sorted(got)}, Python semantics give {sorted(model)}", op=op_name, kind=kind, aspect="content"))
                return False
        expected = closure({(owner_serial, prop, e) for e in ever} | {(owner_serial + 1, prop, e) for e in other_ever if e not in retired}, pop.cls_of, pop.taker_of)
        # relations of retired (collected) elements are not judged: the graph drops them at its next sweep
        gset = {f for f in pop.graph_facts() if "dead" not in (f[0], f[2]) and f[0] not in retired and f[2] not in retired}
        if gset != expected:
            missing = sorted(expected - gset, key=str)
            extra = sorted(gset - expected, key=str)
            verdicts.append(kernel.verdict("C16.recorded", f"after op {n} ({op_name}): relations missing from the graph {missing[:4]}, unexpected {extra[:4]} (elements ever in the field: {sorted(ever)})", op=op_name, kind=kind, aspect="missing" if missing else "extra"))
            return False
        # the inverse fields of the elements must show the owner
        for e in ever:
            inv_prop = PROPS[prop]["inverse"]
            inv_field = PROPS[inv_prop]["field"]
            vals = pop.field_values(e, inv_field)
            if owner_serial not in (vals if isinstance(vals, list) else [vals]):
                verdicts.append(kernel.verdict("C16.recorded", f"after op {n} ({op_name}): element {e} became part of the field but its inverse field {inv_field} does not show the owner", op=op_name, kind=kind, aspect="inverse-field"))
                return False
        return True

    if check("construct", -1):
        for n, op in enumerate(scenario["ops"]):
            k = op[0]
            if k in ("gc", "sweep"):
                if k == "gc":
                    gc.collect()
                    counters.inc("fault.gc")
                else:
                    SymbolGraph().remove_dead_instances()
                    counters.inc("fault.sweep")
                continue
            if k == "from_other":
                vals = [x for x in op[1] if x in pop.objs]
                counters.inc("fault.write_path.from_other")
                try:
                    if other[0] is None:
                        other[0] = pop.create([tgt["owner_cls"], owner_serial + 1])
                    setattr(other[0], field, objs(vals) if kind == "list" else set(objs(vals)))
                    other_ever.update(vals)
                    setattr(owner, field, getattr(other[0], field))
                except Exception as e:
                    verdicts.append(kernel.verdict("C16.exception", f"op {n} (from_other) raised {type(e).__name__}: {e}", op=k, kind=kind))
                    break
                model = list(vals) if kind == "list" else set(vals)
                ever.update(vals)
                nontrivial = True
                if not check(k, n):
                    break
                continue
            if k == "heir_write":
                if op[2] not in pop.objs:
                    counters.inc("ops_skipped")
                    continue
                counters.inc("fault.write_path.heir_" + op[1])
                heir_serial = owner_serial + 3
                try:
                    collection = getattr(owner, field)
                    old_id = id(owner)
                    pop.objs.pop(owner_serial, None)
                    # the elements let go of the owner as well (their inverse fields are un-assigned), so that the
                    # collection is all that is left of it
                    inv_field_name = PROPS[PROPS[prop]["inverse"]]["field"]
                    e_obj = None
                    for e_serial, e_obj in pop.objs.items():
                        if pop.cls_of.get(e_serial) == tgt["elem_cls"]:
                            setattr(e_obj, inv_field_name, [] if PROPS[PROPS[prop]["inverse"]]["kind"] == "list" else set())
                    del e_obj
                    owner = None
                    other[0] = None
                    if op[3]:
                        gc.collect()
                    heir = oworld.ONTOLOGY_CLASSES[tgt["owner_cls"]](heir_serial, **{field: collection})
                    if id(heir) == old_id:
                        counters.inc("probe.heir_on_the_dead_owners_address")
                    del collection
                    pop.objs[heir_serial] = heir
                    pop.cls_of[heir_serial] = tgt["owner_cls"]
                    elem = pop.objs[op[2]]
                    if op[1] == "append":
                        getattr(heir, field).append(elem)
                    elif op[1] == "add":
                        getattr(heir, field).add(elem)
                    elif op[1] == "iadd":
                        exec(f"o.{field} += [x]", {"o": heir, "x": elem})
                    else:
                        exec(f"o.{field} |= {{x}}", {"o": heir, "x": elem})
                except Exception as e:
                    verdicts.append(kernel.verdict("C16.exception", f"op {n} (heir_write {op[1]}) raised {type(e).__name__}: {e}", op=k, kind=kind))
                    break
                # as for alias_write, only the write itself is judged: the element is recorded for the instance written
                facts = set(pop.graph_facts())
                inv_prop = PROPS[prop]["inverse"]
                want = {(heir_serial, prop, op[2]), (op[2], inv_prop, heir_serial)}
                if not want <= facts:
                    verdicts.append(kernel.verdict("C16.recorded", f"after op {n} ({op[1]} on an instance constructed with the collection that outlived its dead owner): relations missing from the graph {sorted(want - facts, key=str)}", op=k, kind=kind, aspect="missing"))
                nontrivial = True
                break
            if k == "alias_write":
                import copy as _copy

                if op[2] not in pop.objs:
                    counters.inc("ops_skipped")
                    continue
                counters.inc("fault.write_path.alias_" + op[1])
                twin_serial = owner_serial + 2
                try:
                    twin = _copy.copy(owner)
                    twin.serial = twin_serial
                    pop.objs[twin_serial] = twin
                    pop.cls_of[twin_serial] = tgt["owner_cls"]
                    elem = pop.objs[op[2]]
                    if op[1] == "append":
                        getattr(twin, field).append(elem)
                    elif op[1] == "add":
                        getattr(twin, field).add(elem)
                    elif op[1] == "iadd":
                        exec(f"o.{field} += [x]", {"o": twin, "x": elem})
                    else:
                        exec(f"o.{field} |= {{x}}", {"o": twin, "x": elem})
                except Exception as e:
                    verdicts.append(kernel.verdict("C16.exception", f"op {n} (alias_write {op[1]}) raised {type(e).__name__}: {e}", op=k, kind=kind))
                    break
                # two owners of one container object are outside what the model can follow; judged is only what the
                # property says about the write itself: the element is recorded for the instance written through
                facts = set(pop.graph_facts())
                inv_prop = PROPS[prop]["inverse"]
                want = {(twin_serial, prop, op[2]), (op[2], inv_prop, twin_serial)}
                if not want <= facts:
                    verdicts.append(kernel.verdict("C16.recorded", f"after op {n} ({op[1]} through a shallow copy of the owner that shares the container): relations missing from the graph {sorted(want - facts, key=str)}", op=k, kind=kind, aspect="missing"))
                nontrivial = True
                break
            if k == "assign_view":
                import itertools as _it

                view_kind, a, b = op[1], op[2], op[3]
                if a not in pop.objs or b not in pop.objs:
                    counters.inc("ops_skipped")
                    continue
                counters.inc("fault.write_path.assign_view_" + view_kind)
                old = list(model) if kind == "list" else set(model)
                cur = getattr(owner, field)
                if view_kind == "generator":
                    value = (m for m in cur)
                    new = list(old)
                elif view_kind == "filter":
                    value = filter(lambda m: m.serial != a, cur)
                    new = [x for x in old if x != a]
                elif view_kind == "chain":
                    value = _it.chain(cur, [pop.objs[b]])
                    new = list(old) + [b]
                else:
                    value = reversed(cur)
                    new = list(reversed(list(old)))
                del cur
                try:
                    setattr(owner, field, value)
                except Exception as e:
                    verdicts.append(kernel.verdict("C16.exception", f"op {n} (assign_view {view_kind}) raised {type(e).__name__}: {e}", op=k, kind=kind))
                    break
                model = new if kind == "list" else set(new)
                ever.update(new)
                nontrivial = nontrivial or len(old) >= 1
                if not check(k + ":" + view_kind, n):
                    break
                continue
            if k == "create_elem":
                # a new element object appears (possibly at the address of a retired one)
                if pop.create([tgt["elem_cls"], op[1]]) is not None:
                    counters.inc("fault.element_created")
                continue
            if k == "retire":
                # an element that is not in the field any more is forgotten by the program and collected
                e = op[1]
                if e in pop.objs and e not in model and e not in other_ever:
                    del pop.objs[e]
                    pop.cls_of.pop(e, None)
                    ever.discard(e)
                    retired.add(e)
                    # no collection here: the element is not part of a cycle and dies with its last reference, and its
                    # address is most likely to be reused when nothing else is freed in between
                    counters.inc("fault.element_retired")
                else:
                    counters.inc("ops_skipped")
                continue
            if (kind == "list" and k in ("ior", "add", "update")) or (kind == "set" and k in ("iadd", "append", "extend", "insert", "setitem", "setslice")):
                counters.inc("ops_skipped")
                continue
            counters.inc("fault.write_path." + k)
            try:
                if k == "assign":
                    vals = [s for s in op[1] if s in pop.objs]
                    if kind == "list":
                        setattr(owner, field, objs(vals))
                        model = list(vals)
                    else:
                        setattr(owner, field, set(objs(vals)))
                        model = set(vals)
                    ever.update(vals)
                    nontrivial = nontrivial or len(vals) >= 2
                elif k == "self_assign":
                    exec(f"o.{field} = o.{field}", {"o": owner})
                    nontrivial = nontrivial or len(model) >= 1
                elif k == "iadd":
                    vals = [s for s in op[1] if s in pop.objs]
                    arg_kind = op[2] if len(op) > 2 else "same"
                    if arg_kind == "other":
                        vals = list(dict.fromkeys(vals))  # a set argument: order of a set is not defined, keep it well defined
                        arg_kind = "same" if len(vals) > 1 else "other"
                    try:
                        exec(f"o.{field} += xs", {"o": owner, "xs": as_argument(objs(vals), arg_kind, list)})
                    except oworld.InjectedFault:
                        pass
                    model = model + vals
                    ever.update(vals)
                    nontrivial = True
                elif k == "ior":
                    vals = [s for s in op[1] if s in pop.objs]
                    exec(f"o.{field} |= xs", {"o": owner, "xs": set(objs(vals))})
                    model = model | set(vals)
                    ever.update(vals)
                    nontrivial = True
                elif k == "append":
                    if op[1] not in pop.objs:
                        continue
                    getattr(owner, field).append(pop.objs[op[1]])
                    model.append(op[1])
                    ever.add(op[1])
                elif k == "extend":
                    vals = [s for s in op[1] if s in pop.objs]
                    arg_kind = op[2] if len(op) > 2 else "same"
                    if arg_kind == "other":
                        vals = list(dict.fromkeys(vals))
                        arg_kind = "same" if len(vals) > 1 else "other"
                    try:
                        getattr(owner, field).extend(as_argument(objs(vals), arg_kind, list))
                    except oworld.InjectedFault:
                        pass
                    model.extend(vals)
                    ever.update(vals)
                elif k == "insert":
                    if op[2] not in pop.objs:
                        continue
                    getattr(owner, field).insert(op[1], pop.objs[op[2]])
                    model.insert(op[1], op[2])
                    ever.add(op[2])
                elif k == "setslice":
                    vals = [x for x in op[3] if x in pop.objs]
                    i, j = op[1], op[2]
                    getattr(owner, field)[i:j] = objs(vals)
                    model[i:j] = vals
                    ever.update(vals)
                    nontrivial = True
                elif k == "setitem":
                    if op[2] not in pop.objs or not model:
                        counters.inc("ops_skipped")
                        continue
                    i = op[1] if -len(model) <= op[1] < len(model) else op[1] % len(model)
                    getattr(owner, field)[i] = pop.objs[op[2]]
                    model[i] = op[2]
                    ever.add(op[2])
                elif k == "add":
                    if op[1] not in pop.objs:
                        continue
                    getattr(owner, field).add(pop.objs[op[1]])
                    model.add(op[1])
                    ever.add(op[1])
                elif k == "update":
                    vals = [s for s in op[1] if s in pop.objs]
                    try:
                        getattr(owner, field).update(as_argument(objs(vals), op[2] if len(op) > 2 else "same", set))
                    except oworld.InjectedFault:
                        pass
                    model |= set(vals)
                    ever.update(vals)
                else:
                    counters.inc("ops_skipped")
                    continue
            except Exception as e:
                verdicts.append(kernel.verdict("C16.exception", f"op {n} ({k}) raised {type(e).__name__}: {e}", op=k, kind=kind))
                break
            if not check(k, n):
                break
    counters.inc("ops", len(scenario["ops"]))
    shape = kernel.short_hash([kind, scenario.get("initial"), scenario["ops"]])
    return result(log, counters, verdicts, nontrivial or len(scenario["ops"]) >= 2, shape)
