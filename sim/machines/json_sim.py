"""
Sim-J: the JSON document store simulator (property C19, level fault_enumeration).

writer (to_json) -> stored JSON text -> fault injector at rest -> reader (from_json)

The import system seen by the reader is simulated: it answers from sys.modules only,
reproduces importlib's behaviour for degenerate names and can be told to fail an
existing module with ImportError.  An independent resolver classifies every corrupted
tag and gives the admissible outcomes.
"""
from __future__ import annotations

import copy
import importlib
import json
import sys
import uuid
from typing import Any, Dict, List, Optional

from .. import kernel
from ..kernel import Chooser
from ..worlds import jworld

import krrood.adapters.json_serializer as js

TAG = js.JSON_TYPE_NAME
MOD = "sim.worlds.jworld"
FAILING_MODULE = "sim.worlds.failing_module"
U1 = "12345678-1234-5678-1234-567812345678"

# ----------------------------------------------------------------------- documents

CORPUS = [
    ["Shape", "a"],
    ["Tri", "t", 3, U1],
    ["Group", [["Shape", "s"], ["Poly", "p", 4]], ["Tri", "l", 3, None], ["Foreign", 1]],
    ["list", [["Shape", "x"], ["Group", [["Foreign", 2], ["list", [["Poly", "q", 5]]]], None, ["uuid", U1]]]],
    ["Foreign", 7],
    ["uuid", U1],
]


def build(spec):
    """Document spec -> Python value."""
    if not isinstance(spec, list):
        return spec
    kind = spec[0]
    if kind == "Shape":
        return jworld.Shape(spec[1])
    if kind == "Temp":
        return jworld.__dict__["Temp_original"](spec[1])
    if kind == "Poly":
        return jworld.Poly(spec[1], spec[2])
    if kind == "Tri":
        return jworld.Tri(spec[1], spec[2], uuid.UUID(spec[3]) if spec[3] else None)
    if kind == "Foreign":
        return jworld.Foreign(spec[1])
    if kind == "uuid":
        return uuid.UUID(spec[1])
    if kind == "Group":
        return jworld.Group([build(m) for m in spec[1]], build(spec[2]), build(spec[3]))
    if kind == "list":
        return [build(m) for m in spec[1]]
    raise ValueError(kind)


def describe(value):
    """Exact type structure of a deserialised value."""
    if isinstance(value, jworld.Group) and type(value) is jworld.Group:
        return ["Group", [describe(m) for m in value.members], describe(value.leader), describe(value.extra)]
    if isinstance(value, list):
        return ["list", [describe(m) for m in value]]
    if isinstance(value, jworld.Tri):
        return [type(value).__name__, describe(value.tag)]
    return type(value).__module__ + "." + type(value).__name__


def tag_positions(stored, path=()):
    """Pre-order list of paths of every dict that carries (or should carry) a type tag."""
    out = []
    if isinstance(stored, dict):
        if TAG in stored:
            out.append(list(path))
        for k, v in stored.items():
            out.extend(tag_positions(v, path + (k,)))
    elif isinstance(stored, list):
        for i, v in enumerate(stored):
            out.extend(tag_positions(v, path + (i,)))
    return out


def at_path(stored, path):
    for p in path:
        stored = stored[p]
    return stored


# ----------------------------------------------------------------------- faults

DELETE = {"__delete__": True}
NONSTRING = [None, 0, 5, 1.5, True, False, [], ["a.b"], {}, {"a": 1}, ""]
MALFORMED = ["NoDots", ".X", "..X", ".", "..", "a..b.X", MOD + ".", "." + MOD + ".Shape", MOD + "..Shape", " ", MOD + ". Shape"]
MODULE_FAULTS = ["no_such_module_xyz.Shape", "sim.worlds.no_such_module.Shape", "sim.no_such.deeper.Shape", FAILING_MODULE + ".Shape", "Sim.worlds.jworld.Shape"]
CLASS_FAULTS = [
    MOD + ".Missing", MOD + ".helper_function", MOD + ".jsonmod", MOD + ".CONSTANT", MOD + ".TV", MOD + ".Alias", MOD + ".Plain",
    MOD + ".AbstractShape", MOD + ".NoDeserialiser", "krrood.adapters.json_serializer.SubclassJSONSerializer", "builtins.int", "builtins.len",
    MOD + ".ForeignChild", MOD + ".UUIDChild", MOD + ".WriteOnly", "os.path", "os.path.join", "typing.List", "typing.Any", "sys.maxsize", "builtins.None", MOD + ".CLASSES", MOD + ".shape", MOD + ".__name__",
]
RETARGETS = [MOD + ".Shape", MOD + ".Poly", MOD + ".Tri", MOD + ".Group", MOD + ".Foreign", "uuid.UUID"]


def fault_matrix() -> List[Dict]:
    """The enumerated fault space of the quick tier: every fault kind x every tag position of the corpus."""
    out = []
    for di, spec in enumerate(CORPUS):
        stored = json.loads(json.dumps(js.to_json(build(spec))))
        for pi, path in enumerate(tag_positions(stored)):
            real = at_path(stored, path)[TAG]
            faults = [("delete", DELETE)]
            faults += [("nonstring", v) for v in NONSTRING]
            faults += [("malformed", v) for v in MALFORMED]
            faults += [("module", v) for v in MODULE_FAULTS]
            faults += [("class", v) for v in CLASS_FAULTS]
            faults += [("retarget", v) for v in RETARGETS if v != real]
            faults += [("truncate", real[:k]) for k in range(1, len(real))]
            faults += [("flip", real[:k] + ch + real[k + 1:]) for k in range(len(real)) for ch in ("X", ".") if real[k] != ch]
            for kind, value in faults:
                out.append({"doc": di, "pos": pi, "kind": kind, "value": value})
    return out


_MATRIX = None


def matrix():
    global _MATRIX
    if _MATRIX is None:
        _MATRIX = fault_matrix()
    return _MATRIX


def _random_doc(c: Chooser, depth=0):
    kinds = [("Shape", 3), ("Poly", 3), ("Tri", 3), ("Foreign", 2), ("uuid", 1)]
    if depth < 3:
        kinds += [("Group", 4), ("list", 2)]
    k = c.weighted(kinds)
    if k == "Shape":
        return ["Shape", c.pick(["a", "b", "äö"])]
    if k == "Poly":
        return ["Poly", "p", c.int(0, 9)]
    if k == "Tri":
        return ["Tri", "t", 3, U1 if c.chance(0.5) else None]
    if k == "Foreign":
        return ["Foreign", c.int(0, 9)]
    if k == "uuid":
        return ["uuid", U1]
    if k == "Group":
        return ["Group", [_random_doc(c, depth + 1) for _ in range(c.int(0, 3))], _random_doc(c, depth + 1) if c.chance(0.6) else None, _random_doc(c, depth + 1) if c.chance(0.4) else None]
    return ["list", [_random_doc(c, depth + 1) for _ in range(c.int(0, 3))]]


def _mutate_string(c: Chooser, real: str) -> str:
    s = list(real)
    for _ in range(c.int(1, 3)):
        op = c.pick(["del", "ins", "sub", "swap"])
        if not s:
            break
        i = c.int(0, len(s) - 1)
        if op == "del":
            del s[i]
        elif op == "ins":
            s.insert(i, c.pick(list(".X_ 1") + ["é"]))
        elif op == "sub":
            s[i] = c.pick(list(".Xx_9"))
        elif i + 1 < len(s):
            s[i], s[i + 1] = s[i + 1], s[i]
    return "".join(s)


def generate(rng, cfg: Dict) -> Dict:
    index = cfg.get("_index", 0)
    m = matrix()
    if index < len(m):
        f = m[index]
        one = {"doc": CORPUS[f["doc"]], "faults": [{"pos": f["pos"], "kind": f["kind"], "value": f["value"]}]}
        # every entry of the matrix is read twice in the same process (a second read must fail like the first)
        return {"property": "C19", "machine": "json_sim", "mode": "matrix", "doc": one["doc"], "faults": one["faults"], "reads": [one, copy.deepcopy(one)], "fail_modules": [FAILING_MODULE]}
    c = Chooser(rng)
    doc = _random_doc(c)
    stored = json.loads(json.dumps(js.to_json(build(doc))))
    positions = tag_positions(stored)
    faults = []
    if positions:
        n = c.weighted([(1, 4), (2, 3), (3, 1)])
        only_unresolvable = n > 1
        for pi in c.sample(range(len(positions)), min(n, len(positions))):
            real = at_path(stored, positions[pi])[TAG]
            kinds = [("delete", 2), ("nonstring", 3), ("malformed", 3), ("module", 3), ("class", 4), ("mutate", 4)]
            if not only_unresolvable:
                kinds += [("retarget", 3), ("truncate", 2)]
            kind = c.weighted(kinds)
            if kind == "delete":
                value = DELETE
            elif kind == "nonstring":
                value = c.pick(NONSTRING)
            elif kind == "malformed":
                value = c.pick(MALFORMED)
            elif kind == "module":
                value = c.pick(MODULE_FAULTS)
            elif kind == "class":
                value = c.pick(CLASS_FAULTS)
            elif kind == "retarget":
                value = c.pick(RETARGETS)
            elif kind == "truncate":
                value = real[: c.int(0, max(0, len(real) - 1))]
            else:
                value = _mutate_string(c, real)
            faults.append({"pos": pi, "kind": kind, "value": value})
    if c.chance(0.08):
        # the tag is fine at first; then the name it resolves to is deleted or rebound; then the same document again
        change = c.pick(["delete", "function", "plain-class", "constant"])
        doc = c.pick([["Temp", "x"], ["list", [["Temp", "y"], ["Shape", "s"]]], ["Group", [["Temp", "z"]], None, None]])
        reads = [{"doc": doc, "faults": []}, {"env": change}, {"doc": doc, "faults": [], "stale_env": change}]
        return {"property": "C19", "machine": "json_sim", "mode": "environment", "doc": doc, "faults": [], "reads": reads, "fail_modules": [FAILING_MODULE]}
    reads = [{"doc": doc, "faults": faults}]
    # a history of reads in one process: the same corrupted document again, or the same bad tag in another document
    for _ in range(c.weighted([(0, 3), (1, 3), (2, 2), (3, 1)])):
        prev = c.pick(reads)
        if c.chance(0.5) or not prev["faults"]:
            reads.append(copy.deepcopy(prev))
        else:
            other = _random_doc(c)
            n_pos = len(tag_positions(json.loads(json.dumps(js.to_json(build(other))))))
            if n_pos == 0:
                reads.append(copy.deepcopy(prev))
            else:
                f = copy.deepcopy(c.pick(prev["faults"]))
                f["pos"] = c.int(0, n_pos - 1)
                reads.append({"doc": other, "faults": [f]})
    return {"property": "C19", "machine": "json_sim", "mode": "sequence", "doc": doc, "faults": faults, "reads": reads, "fail_modules": [FAILING_MODULE] if c.chance(0.8) else []}


# ----------------------------------------------------------------------- simulated import system


class SimulatedImportSystem:
    """Stands in for the `importlib` module inside json_serializer: nothing new is ever imported."""

    def __init__(self, failing):
        self.failing = set(failing)
        self.calls = 0

    def import_module(self, name, package=None):
        self.calls += 1
        if name.startswith("."):  # AttributeError for non-strings, as the real one
            raise TypeError(f"the 'package' argument is required to perform a relative import for {name!r}")
        if not name:
            raise ValueError("Empty module name")
        if name in self.failing:
            raise ImportError(f"cannot import name 'x' from partially initialized module {name!r} (simulated: the module exists but fails to import)", name=name)
        mod = sys.modules.get(name)
        if mod is not None:
            return mod
        raise ModuleNotFoundError(f"No module named {name!r}", name=name)


class DenyAllFinder:
    """Safety net: whatever reaches the real import machinery does not exist."""

    attempts: List[str] = []

    @classmethod
    def find_spec(cls, name, path=None, target=None):
        cls.attempts.append(name)
        return None


def _install(sim: SimulatedImportSystem):
    js.importlib = sim
    importlib.import_module = sim.import_module
    sys.meta_path[:] = [DenyAllFinder]
    sys.path_importer_cache.clear()
    sys.path[:] = []


# ----------------------------------------------------------------------- the independent resolver (oracle)

E = {name: getattr(js, name) for name in ("MissingTypeError", "InvalidTypeFormatError", "UnknownModuleError", "ClassNotFoundError", "ClassNotDeserializableError")}


def classify(value, failing) -> Dict:
    """
    What may happen when a document carries `value` under the type-tag key.
    -> {"class": "unresolvable", "admissible": [...]} | {"class": "resolvable", "target": type} | {"class": "open"}
    """
    if value is DELETE or value == DELETE:
        return {"class": "unresolvable", "why": "missing", "admissible": ["MissingTypeError", "InvalidTypeFormatError"]}
    if not isinstance(value, str):
        return {"class": "unresolvable", "why": "wrong-json-type", "admissible": ["InvalidTypeFormatError", "MissingTypeError"]}
    if value == "":
        return {"class": "unresolvable", "why": "empty", "admissible": ["MissingTypeError", "InvalidTypeFormatError"]}
    if "." not in value:
        return {"class": "unresolvable", "why": "no-dot", "admissible": ["InvalidTypeFormatError", "MissingTypeError"]}
    module_name, _, class_name = value.rpartition(".")
    segments = module_name.split(".")
    if module_name == "" or class_name == "" or any(seg == "" for seg in segments) or any((not seg.isidentifier()) for seg in segments + [class_name]):
        return {"class": "unresolvable", "why": "malformed", "admissible": ["InvalidTypeFormatError", "UnknownModuleError", "ClassNotFoundError"]}
    if module_name in failing:
        return {"class": "unresolvable", "why": "module-fails-to-import", "admissible": ["UnknownModuleError"]}
    module = sys.modules.get(module_name)
    if module is None:
        return {"class": "unresolvable", "why": "unknown-module", "admissible": ["UnknownModuleError", "InvalidTypeFormatError"]}
    missing = object()
    target = module.__dict__.get(class_name, missing)
    if target is missing:
        try:
            target = getattr(module, class_name)
        except AttributeError:
            return {"class": "unresolvable", "why": "no-such-attribute", "admissible": ["ClassNotFoundError"]}
    if not isinstance(target, type):
        return {"class": "unresolvable", "why": "not-a-class", "admissible": ["ClassNotDeserializableError", "ClassNotFoundError"]}
    if issubclass(target, js.SubclassJSONSerializer):
        own = any("_from_json" in vars(k) for k in target.__mro__ if k is not js.SubclassJSONSerializer and k is not object)
        if not own:
            # whether NotImplementedError of a serialiser without _from_json is "unrelated" is not settled by the statement
            return {"class": "open", "why": "serialiser-without-deserialiser"}
        return {"class": "resolvable", "target": target}
    if js.JSONSerializableTypeRegistry().get_deserializer(target):
        return {"class": "resolvable", "target": target}
    return {"class": "unresolvable", "why": "class-not-deserialisable", "admissible": ["ClassNotDeserializableError"]}


# ----------------------------------------------------------------------- execution


def execute(scenario: Dict) -> Dict:
    log, counters = kernel.EventLog(), kernel.Counters()
    verdicts: List[Dict] = []
    reads = scenario.get("reads") or [{"doc": scenario["doc"], "faults": scenario["faults"]}]
    nontrivial = False
    jworld.__dict__.setdefault("Temp_original", jworld.Temp)
    for n, read in enumerate(reads):
        if "env" in read:
            counters.inc("fault.environment_change")
            if read["env"] == "delete":
                jworld.__dict__.pop("Temp", None)
            elif read["env"] == "function":
                jworld.Temp = jworld.helper_function
            elif read["env"] == "plain-class":
                jworld.Temp = jworld.Plain
            else:
                jworld.Temp = jworld.CONSTANT
            continue
        if read.get("stale_env"):
            applied = _stale_read(read, n, log, counters, verdicts)
            nontrivial = nontrivial or applied
            continue
        applied = _one_read(dict(scenario, doc=read["doc"], faults=read["faults"]), n, log, counters, verdicts)
        nontrivial = nontrivial or applied
        if verdicts:
            break
    if len(reads) > 1:
        counters.inc("fault.repeated_read", len(reads) - 1)
    counters.inc("ops", sum(len(r.get("faults", [])) for r in reads))
    shape = kernel.short_hash([[[r.get("doc"), r.get("env"), [[f["pos"], f["kind"], f["value"] if f["value"] != DELETE else "<deleted>"] for f in r.get("faults", [])]] for r in reads], scenario.get("fail_modules")])
    counters.inc("runs")
    return {"verdicts": verdicts, "digest": log.digest(), "counters": dict(counters), "nontrivial": nontrivial, "shape": shape}


def _stale_read(read: Dict, read_no: int, log, counters, verdicts) -> bool:
    """Read a document whose (unchanged) tag no longer names a deserialisable class: it must fail as any such tag does."""
    value = build(read["doc"])
    stored = json.loads(json.dumps(js.to_json(value)))
    admissible = {"delete": ["ClassNotFoundError"], "function": ["ClassNotDeserializableError", "ClassNotFoundError"],
                  "plain-class": ["ClassNotDeserializableError"], "constant": ["ClassNotDeserializableError", "ClassNotFoundError"]}[read["stale_env"]]
    try:
        result_value = js.from_json(stored)
        outcome, exc = "returned", None
    except BaseException as e:
        outcome, exc = "raised", e
    log.add("stale-read", read["stale_env"], outcome, type(exc).__name__ if exc is not None else None)
    feats = dict(fault_kind="environment:" + read["stale_env"], why="name-rebound-after-first-read", read_no=read_no)
    if outcome == "returned":
        verdicts.append(kernel.verdict("C19.wrong-object", f"after the name the tag resolves to was changed ({read['stale_env']}) the document was still deserialised into {describe(result_value)}", exception=None, **feats))
    elif not isinstance(exc, js.JSONSerializationError):
        verdicts.append(kernel.verdict("C19.escape", f"after the name the tag resolves to was changed ({read['stale_env']}) from_json raised {type(exc).__name__}: {exc}", exception=type(exc).__name__, **feats))
    elif type(exc).__name__ in E and type(exc).__name__ not in admissible:
        verdicts.append(kernel.verdict("C19.wrong-error", f"after the name the tag resolves to was changed ({read['stale_env']}) from_json raised {type(exc).__name__} (admissible: {admissible})", exception=type(exc).__name__, **feats))
    counters.inc("reads")
    return True


def _one_read(scenario: Dict, read_no: int, log, counters, verdicts) -> bool:
    value = build(scenario["doc"])
    stored_text = json.dumps(js.to_json(value))  # the writer
    # fault-free control (also the warm-up that loads everything krrood imports lazily)
    control = js.from_json(json.loads(stored_text))
    if describe(control) != describe(value):
        counters.inc("probe.control_failed")
        log.add("CONTROL-FAILED", describe(control), describe(value))
    failing = list(scenario.get("fail_modules", []))
    if not isinstance(js.importlib, SimulatedImportSystem):
        _install(SimulatedImportSystem(failing))
    # the fault injector works on the document at rest
    stored = json.loads(stored_text)
    positions = tag_positions(stored)
    applied = []
    for f in scenario["faults"]:
        if f["pos"] >= len(positions):
            counters.inc("faults_skipped")
            continue
        holder = at_path(stored, positions[f["pos"]])
        if f["value"] == DELETE:
            holder.pop(TAG, None)
        else:
            holder[TAG] = f["value"]
        applied.append((positions[f["pos"]], f))
        counters.inc("fault.tag_" + f["kind"])
    stored_text = json.dumps(stored)
    classes = [classify(f["value"] if f["value"] != DELETE else DELETE, failing) for _, f in applied]
    for cl in classes:
        counters.inc("class." + cl["class"] + "." + cl.get("why", "target"))
    # the reader
    outcome, exc = None, None
    try:
        result_value = js.from_json(json.loads(stored_text))
        outcome = "returned"
    except BaseException as e:
        exc = e
        outcome = "raised"
    log.add("faults", [[p, f["kind"], f["value"] if f["value"] != DELETE else "<deleted>"] for p, f in applied])
    log.add("outcome", outcome, type(exc).__name__ if exc is not None else None)
    if DenyAllFinder.attempts:
        counters.inc("probe.real_import_attempted", len(DenyAllFinder.attempts))
    if applied:
        fault_desc = [[f["kind"], f["value"] if f["value"] != DELETE else "<deleted>"] for _, f in applied]
        unresolvable = [c for c in classes if c["class"] == "unresolvable"]
        others = [c for c in classes if c["class"] != "unresolvable"]
        kind0 = applied[0][1]["kind"]
        why0 = classes[0].get("why", "resolvable")
        if unresolvable and not others:
            admissible = sorted({a for c in unresolvable for a in c["admissible"]})
            if outcome == "returned":
                verdicts.append(kernel.verdict("C19.wrong-object", f"a document with the unresolvable tag(s) {fault_desc} was deserialised into {describe(result_value)}", fault_kind=kind0, why=why0, exception=None))
            elif not isinstance(exc, js.JSONSerializationError):
                verdicts.append(kernel.verdict("C19.escape", f"tag(s) {fault_desc} ({[c['why'] for c in unresolvable]}): from_json raised {type(exc).__name__}: {exc}", fault_kind=kind0, why=why0, exception=type(exc).__name__))
            elif type(exc).__name__ not in E:
                # a JSONSerializationError subclass this harness does not know: it cannot judge whether it identifies
                # the problem, so it is accepted (and counted)
                counters.inc("probe.unknown_serialisation_error_subclass")
            elif type(exc).__name__ not in admissible:
                verdicts.append(kernel.verdict("C19.wrong-error", f"tag(s) {fault_desc} ({[c['why'] for c in unresolvable]}): from_json raised {type(exc).__name__}, which does not identify the problem (admissible: {admissible})", fault_kind=kind0, why=why0, exception=type(exc).__name__))
        elif len(applied) == 1 and classes[0]["class"] == "resolvable" and outcome == "returned":
            # the tag names another real class K: the object at that position must be exactly a K
            path = applied[0][0]
            target = classes[0]["target"]
            got = _object_at(result_value, json.loads(stored_text), path)
            if got is _UNKNOWN:
                counters.inc("probe.retarget_position_not_traceable")
            elif type(got) is not target:
                verdicts.append(kernel.verdict("C19.mistyped", f"the tag at {path} names {target.__name__} but the object there is a {type(got).__name__}", fault_kind=kind0, why="resolvable", exception=None))
        elif outcome == "raised" and isinstance(exc, (KeyboardInterrupt, SystemExit, MemoryError, RecursionError)):
            verdicts.append(kernel.verdict("C19.escape", f"from_json raised {type(exc).__name__}", fault_kind=kind0, why=why0, exception=type(exc).__name__))
    counters.inc("reads")
    for v in verdicts:
        v["features"].setdefault("read_no", read_no)
    return bool(applied)


_UNKNOWN = object()


def _object_at(value, stored, path):
    """Follow the stored document's path into the deserialised value (Group fields and lists only)."""
    cur = value
    for p in path:
        if isinstance(p, int):
            if not isinstance(cur, list) or p >= len(cur):
                return _UNKNOWN
            cur = cur[p]
        elif isinstance(cur, jworld.Group) and p in ("members", "leader", "extra"):
            cur = getattr(cur, p)
        elif isinstance(cur, jworld.Tri) and p == "tag":
            cur = cur.tag
        else:
            return _UNKNOWN
    return cur


def same_class(a: Dict, b: Dict) -> bool:
    return a["rule"] == b["rule"] and a["features"].get("why") == b["features"].get("why") and a["features"].get("exception") == b["features"].get("exception")


def same_target(a, b):
    return same_class(a, b)


def neutralise(scenario, name, verdict):
    return None


DDMIN_KEYS = ["reads", "faults"]


def shrink_candidates(sc: Dict):
    # replace the document by a corpus document that still has the fault's position
    for spec in CORPUS[:3]:
        if spec != sc["doc"]:
            c = copy.deepcopy(sc)
            c["doc"] = spec
            for f in c["faults"]:
                f["pos"] = 0
            yield c


def extra_coverage(prop, tier, cfg):
    m = matrix()
    return {
        "fault_matrix": {"documents": len(CORPUS), "tag_positions": len({(f["doc"], f["pos"]) for f in m}), "faults": len(m),
                         "kinds": sorted({f["kind"] for f in m})},
        "exhaustive_part": f"run indices 0..{len(m) - 1} enumerate the matrix (every fault kind x every tag position of the fixed corpus) exhaustively; higher indices are seeded multi-fault sequences over generated documents",
    }
