"""
C15 on Sim-O: descriptor inference reaches the full closure in any assertion order.
"""
from __future__ import annotations

import gc
from typing import Dict, List

from .. import kernel
from ..kernel import Chooser
from ..worlds import oworld
from .onto_sim import Population, closure, write, write_batch, result, PROPS, F2P, RELATABLE

from krrood.entity_query_language.symbol_graph import SymbolGraph

BATCH_PATHS = {"list": ["assign_container", "assign_container", "extend", "iadd"], "set": ["assign_container", "assign_container", "update", "ior"]}
PATHS = {"single": ["assign"], "list": ["append", "extend", "assign_container", "insert0", "iadd"], "set": ["add", "update", "assign_container", "ior"]}


def generate(rng, cfg: Dict) -> Dict:
    c = Chooser(rng)
    n = c.int(3, 8)
    population, classes = [], {}
    zones = c.chance(0.3)  # swarm knob: a population that is mostly zones (transitive property with inverse and super)
    for serial in range(n):
        humans = [k for k, v in classes.items() if v == "Human"]
        cls = c.weighted([("Org", 5), ("Human", 4), ("Boss", 2.5 if humans else 0), ("Dean", 1.5 if humans else 0), ("Envoy", 1.5), ("Zone", 3.5 if zones else 1.5), ("Officer", 1.5), ("Donor", 0.7), ("Patron", 1.5)])  # (a plain Clerk has no field for the inverse of Member: krrood refuses such an ontology)
        population.append([cls, serial, c.pick(humans)] if cls in ("Boss", "Dean") else [cls, serial])
        classes[serial] = cls
    cands = [(s, f, t) for s, cs in classes.items() for (dc, f, rc) in RELATABLE if dc == cs for t, ct in classes.items() if oworld.is_a(ct, rc)]
    # krrood itself puts role objects into Org.members (the inverse of HeadOf); asserting such a fact directly is
    # therefore part of the fact space: Member(org, boss) - its inverse lives on the boss's role taker
    cands += [(s, "members", t) for s, cs in classes.items() if cs == "Org" for t, ct in classes.items() if ct in ("Boss", "Envoy", "Dean", "Clerk", "Officer")]
    facts: List[list] = []
    focus = c.weighted([("any", 3), ("transitive", 3), ("roles", 2)])
    for _ in range(c.int(1, 9)):
        pool = cands
        if focus == "transitive":
            pool = [x for x in cands if x[1] in ("sub_org_of", "partners", "part_of", "has_part")] or cands
        elif focus == "roles":
            pool = [x for x in cands if x[1] in ("head_of", "works_for", "members", "chairs", "dean_of", "employed_by", "reports_to", "enrolled")] or cands
        if not pool:
            break
        s, f, t = c.pick(pool)
        if s == t and not c.chance(0.3):
            continue
        facts.append([s, f, t])
    order = list(range(len(facts)))
    ops: List[list] = []

    def delivery(order_):
        out = []
        done = set()
        for pos, i in enumerate(order_):
            if i in done:
                continue
            kind = PROPS[F2P[(classes[facts[i][0]], facts[i][1])]]["kind"]
            mates = [j for j in order_[pos + 1:] if j not in done and facts[j][:2] == facts[i][:2] and facts[j][2] != facts[i][2]]
            if kind != "single" and mates and c.chance(0.4):
                # several facts about one field are asserted by ONE write (a container assignment, extend, update, +=, |=)
                group = [i] + mates[: c.int(1, 2)]
                done.update(group)
                out.append(["deliver_batch", group, c.pick(BATCH_PATHS[kind])])
                continue
            done.add(i)
            out.append(["deliver", i, c.pick(PATHS[kind])])
            if c.chance(0.12):
                out.append(["deliver", c.pick(order_), c.pick(["append", "add", "assign", "extend", "update"])])  # duplicate delivery
            if c.chance(0.08):
                out.append([c.pick(["gc", "sweep"])])
            if c.chance(0.06):
                out.append(["unrelated", c.pick(["Org", "Human"])])
        return out

    ops = delivery(c.shuffle(order))
    second = delivery(c.shuffle(order)) if c.chance(0.4) else None
    return {"property": "C15", "machine": "onto_sim", "salt": c.int(0, 1 << 30), "population": population, "facts": facts, "ops": ops, "second_order": second}


def _check_state(pop: Population, delivered: set, verdicts: List[Dict], when: str, counters) -> Dict:
    expected = closure(delivered, pop.cls_of, pop.taker_of)
    graph = pop.graph_facts()
    gset = set(graph)
    if len(graph) != len(gset):
        dup = sorted({g for g in graph if graph.count(g) > 1})
        verdicts.append(kernel.verdict("C15.graph", f"{when}: the graph records relations twice: {dup[:4]}", aspect="duplicate-edge", property_name=dup[0][1]))
    missing = sorted(expected - gset, key=str)
    extra = sorted(gset - expected, key=str)
    if missing:
        verdicts.append(kernel.verdict("C15.graph", f"{when}: derivable relations missing from the graph: {missing[:5]}", aspect="missing", property_name=missing[0][1]))
    if extra:
        verdicts.append(kernel.verdict("C15.graph", f"{when}: the graph holds relations that are not derivable: {extra[:5]}", aspect="extra", property_name=extra[0][1]))
    # fields
    state = {}
    for serial, cls_name in pop.cls_of.items():
        for field in oworld.ONTOLOGY["classes"][cls_name]["fields"]:
            prop = F2P[(cls_name, field)]
            want = {t for (s, P, t) in expected if s == serial and P == prop}
            got = pop.field_values(serial, field)
            if serial < 900:  # unrelated instances are created at other moments in another order
                state[f"{serial}.{field}"] = got if not isinstance(got, list) else sorted(set(got), key=str)
            if PROPS[prop]["kind"] == "single":
                if want and got not in want:
                    verdicts.append(kernel.verdict("C15.field", f"{when}: {cls_name}#{serial}.{field} is {got}, derivable targets are {sorted(want)}", aspect="single-valued", property_name=prop))
                elif not want and got is not None:
                    verdicts.append(kernel.verdict("C15.field", f"{when}: {cls_name}#{serial}.{field} is {got} although nothing is derivable", aspect="single-valued-extra", property_name=prop))
            else:
                gs = set(got)
                if gs != want:
                    verdicts.append(kernel.verdict("C15.field", f"{when}: {cls_name}#{serial}.{field} holds {sorted(gs, key=str)}, the closure gives {sorted(want)}", aspect="missing" if want - gs else "extra", property_name=prop))
                # agreement of the field with the graph's own edges
                gedges = {t for (s, P, t) in gset if s == serial and P == prop}
                if gs != gedges and gset == expected:
                    verdicts.append(kernel.verdict("C15.agree", f"{when}: {cls_name}#{serial}.{field} holds {sorted(gs, key=str)} but the graph has edges to {sorted(gedges, key=str)}", aspect="agree", property_name=prop))
    if len(expected) > len(delivered):
        counters.inc("probe.closure_larger_than_asserted")
    return state


def _run_order(scenario: Dict, ops: List[list], verdicts, counters, log, tag: str):
    pop = Population(scenario.get("salt", 0))
    for desc in scenario["population"]:
        pop.create(desc)
    delivered = set()
    unrelated = 900
    state = {}
    for n, op in enumerate(ops):
        kind = op[0]
        if kind == "deliver":
            if op[1] >= len(scenario["facts"]):
                counters.inc("ops_skipped")
                continue
            s, f, t = scenario["facts"][op[1]]
            if s not in pop.objs or t not in pop.objs or (pop.cls_of[s], f) not in F2P:
                counters.inc("ops_skipped")
                continue
            fact = (s, F2P[(pop.cls_of[s], f)], t)
            if fact in delivered:
                counters.inc("fault.duplicate_delivery")
            try:
                used = write(pop, s, f, t, op[2], counters)
            except Exception as e:
                verdicts.append(kernel.verdict("C15.exception", f"{tag} op {n}: asserting {fact} raised {type(e).__name__}: {e}", aspect="exception", property_name=fact[1]))
                return None
            delivered.add(fact)
            log.add(tag, "deliver", list(fact), used)
            before = len(verdicts)
            state = _check_state(pop, delivered, verdicts, f"{tag} after op {n} ({fact} via {used})", counters)
            if len(verdicts) > before:
                return None
        elif kind == "deliver_batch":
            group = [scenario["facts"][i] for i in op[1] if i < len(scenario["facts"])]
            group = [g for g in group if g[0] in pop.objs and g[2] in pop.objs and (pop.cls_of[g[0]], g[1]) in F2P]
            if not group or len({(g[0], g[1]) for g in group}) != 1:
                counters.inc("ops_skipped")
                continue
            s, f = group[0][0], group[0][1]
            new_facts = [(s, F2P[(pop.cls_of[s], f)], g[2]) for g in group]
            try:
                used = write_batch(pop, s, f, [g[2] for g in group], op[2], counters)
            except Exception as e:
                verdicts.append(kernel.verdict("C15.exception", f"{tag} op {n}: asserting {new_facts} in one write raised {type(e).__name__}: {e}", aspect="exception", property_name=new_facts[0][1]))
                return None
            delivered.update(new_facts)
            log.add(tag, "deliver_batch", [list(x) for x in new_facts], used)
            before = len(verdicts)
            state = _check_state(pop, delivered, verdicts, f"{tag} after op {n} ({new_facts} via one {used})", counters)
            if len(verdicts) > before:
                return None
        elif kind == "gc":
            gc.collect()
            counters.inc("fault.gc")
        elif kind == "sweep":
            SymbolGraph().remove_dead_instances()
            counters.inc("fault.sweep")
        elif kind == "unrelated":
            unrelated += 1
            pop.create([op[1], unrelated])
            counters.inc("fault.unrelated_creation")
    derived = closure(delivered, pop.cls_of, pop.taker_of)
    if any(PROPS[P]["transitive"] for (_, P, _) in derived - delivered):
        counters.inc("probe.transitive_inference")
    if any(s in pop.taker_of.values() and pop.cls_of[s] == "Human" for (s, P, t) in derived - delivered) and any(P == "HeadOf" for (_, P, _) in delivered):
        counters.inc("probe.role_taker_inference")
    return {"state": state, "graph": sorted(set(pop.graph_facts()), key=str), "delivered": sorted(delivered, key=str), "nontrivial": len(derived) > len(delivered)}


def execute(scenario: Dict) -> Dict:
    log, counters = kernel.EventLog(), kernel.Counters()
    verdicts: List[Dict] = []
    first = _run_order(scenario, scenario["ops"], verdicts, counters, log, "order-1")
    nontrivial = bool(first and first["nontrivial"])
    if first is not None and scenario.get("second_order") and not verdicts:
        second = _run_order(scenario, scenario["second_order"], verdicts, counters, log, "order-2")
        counters.inc("fault.reorder")
        if second is not None and not verdicts and first["delivered"] == second["delivered"]:
            if first["graph"] != second["graph"] or first["state"] != second["state"]:
                diff = [k for k in first["state"] if first["state"][k] != second["state"].get(k)]
                single_only = all(PROPS[F2P[(scenario_cls(scenario, int(k.split('.')[0])), k.split('.')[1])]]["kind"] == "single" for k in diff) and first["graph"] == second["graph"]
                if not single_only:
                    verdicts.append(kernel.verdict("C15.order", f"two delivery orders of the same facts end in different states: {diff[:4]}", aspect="order", property_name=None))
    counters.inc("ops", len(scenario["ops"]))
    shape = kernel.short_hash([sorted(map(str, scenario["facts"])), [op[:2] for op in scenario["ops"]]])
    return result(log, counters, verdicts, nontrivial, shape)


def scenario_cls(scenario, serial):
    for p in scenario["population"]:
        if p[1] == serial:
            return p[0]
    return None
