"""
C10 on Sim-E: laziness as an event-order property.

The monitor stamps every user-code event (attribute read, method/predicate/function
call, container access, domain pull) with the phase the consumer is in.  Rules:

  L1 no event while variables, conditions, queries and rule trees are constructed
  L2 none inside q.evaluate() of an an(...) query (it only creates the iterator)
  L3 none while the consumer is idle, closes or drops an iterator, or collects garbage
  L4 the first k results are the first k of the isolated full evaluation
  L5 single-variable query over a stream: holding the result that is the p-th stream
     element, exactly p elements have been pulled
  L6 conjunctive multi-variable query over streams: at every result boundary at least
     one variable's stream has been pulled exactly as far as its element of the row
  L7 with an unbounded stream every step still terminates within the fuse
"""
from __future__ import annotations

import copy
import gc
from typing import Dict, List

from .. import kernel
from ..kernel import Chooser
from ..worlds.eworld import Monitor, FuseBlown
from . import eval_gen

QUIET_PHASES = ("CALL", "IDLE", "CLOSE", "DROP", "GC")


# ------------------------------------------------------------------------ generation


def _single_atom(c: Chooser, v, streams: List):
    kind = c.weighted([("cmp_lit", 6), ("chain", 1.5), ("call", 1.5), ("idx", 0.7), ("in_lit", 2), ("contains_lit", 2),
                       ("pred_big", 1.5), ("flatten", 1), ("in_stream", 1.2), ("item_eq", 1.0)])
    lit = c.int(0, 3)
    op = c.pick(eval_gen.CMP_OPS)
    if kind == "cmp_lit":
        return ["cmp", op, ["attr", v, c.pick(["a", "b"])], ["lit", lit]]
    if kind == "chain":
        return ["cmp", op, ["attr", ["attr", v, "ref"], "a"], ["lit", lit]]
    if kind == "call":
        return ["cmp", op, ["call", v, "m", [c.int(0, 2)]], ["lit", lit]]
    if kind == "idx":
        return ["cmp", op, ["idx", ["attr", v, "xs"], 0], ["lit", lit]]
    if kind == "in_lit":
        return ["in", ["attr", v, "a"], ["lit", sorted({c.int(0, 3) for _ in range(c.int(1, 3))})]]
    if kind == "contains_lit":
        return ["contains", ["attr", v, "xs"], ["lit", lit]]
    if kind == "pred_big":
        return ["pred", "Big", {"x": v, "k": c.int(0, 3)}]
    if kind == "flatten":
        return ["cmp", op, ["flatten", ["attr", v, "xs"]], ["lit", lit]]
    if kind == "item_eq":
        return ["cmp", c.pick(["==", "!="]), ["attr", v, "ref"], ["item", 0]]
    if kind == "in_stream":
        streams.append([c.int(0, 3) for _ in range(c.int(1, 4))])
        # the one-shot stream in literal position comes in several flavours (generator, iterator object, map, chain)
        return ["in", ["attr", v, "a"], ["stream", len(streams) - 1, c.weighted([("gen", 3), ("iter", 2), ("map", 2), ("chain", 1)])]]
    raise AssertionError(kind)


def _single_cond(c: Chooser, v, depth, streams):
    if depth <= 0 or c.chance(0.5):
        return _single_atom(c, v, streams)
    kind = c.weighted([("and", 3), ("or", 3), ("not", 2)])
    if kind == "not":
        return ["not", _single_cond(c, v, depth - 1, streams)]
    return [kind, _single_cond(c, v, depth - 1, streams), _single_cond(c, v, depth - 1, streams)]


def _items(c: Chooser, n, serial0):
    items = []
    for i in range(n):
        xs = [c.int(0, 3) for _ in range(c.weighted([(1, 3), (2, 3), (3, 1)]))]
        items.append({"s": serial0 + i, "t": "A", "a": c.int(0, 3), "b": c.int(0, 2), "xs": xs, "ref": None})
    return items


def generate(rng, cfg: Dict) -> Dict:
    c = Chooser(rng)
    mode = c.weighted([("single", 4), ("multi", 4), ("general", 4), ("endless", 2), ("pattern", 2), ("forall", 1.5)])
    sc: Dict = {"property": "C10", "machine": "eval_sim", "mode": mode, "salt": c.int(0, 1 << 30), "shared": [], "streams": []}
    if mode == "general":
        # (early_p=0: an evaluation before the rules are attached would pull from the streams the laziness rules count)
        g = eval_gen.Gen(rng, dict(cfg, shared_p=0.0, rule_p=0.35, early_p=0.0))
        g.world()
        g.sc["shared"] = []
        # every variable gets its own stream so that nothing is shared between evaluations
        doms, vars_ = [], []
        serial = 0
        for i, v in enumerate(g.sc["vars"]):
            src = next(d for d in g.sc["domains"] if d["id"] == v["dom"])
            items = []
            for it in src["items"]:
                it2 = dict(it, s=serial)
                serial += 1
                items.append(it2)
            doms.append({"id": i, "kind": c.weighted([("gen", 4), ("list", 1)]), "items": items})
            vars_.append(dict(v, dom=i))
        all_serials = [it["s"] for d in doms for it in d["items"]]
        for d in doms:
            for it in d["items"]:
                it["ref"] = c.pick(all_serials) if all_serials and not c.chance(0.05) else None
        g.sc["domains"], g.sc["vars"] = doms, vars_
        q = g.query(allow_rule=True)
        sc.update({k: g.sc[k] for k in ("domains", "vars", "subqueries") if k in g.sc})
        sc["queries"] = [q]
    elif mode == "single":
        n = c.int(1, 6)
        sc["domains"] = [{"id": 0, "kind": c.weighted([("gen", 5), ("sized", 1)]), "items": _items(c, n, 0)}]
        serials = list(range(n))
        for it in sc["domains"][0]["items"]:
            it["ref"] = c.pick(serials)
        sc["vars"] = [{"name": "v0", "t": "A", "dom": 0}]
        v = ["var", 0]
        if c.chance(0.15):
            # a collection attribute that is itself lazily produced, flattened
            sc["mode"] = "inner"
            conds = [["cmp", c.pick(eval_gen.CMP_OPS), ["flatten", ["attr", v, "gxs"]], ["lit", c.int(0, 3)]]]
        else:
            conds = [_single_cond(c, v, c.weighted([(0, 3), (1, 3), (2, 1)]), sc["streams"]) for _ in range(c.weighted([(0, 2), (1, 5), (2, 2)]))]
        sc["queries"] = [{"q": "an", "shape": "entity", "sel": [v], "conds": conds}]
        if c.chance(0.2):
            sc["queries"][0]["quant"] = [c.pick(["atleast", "atmost", "exactly"]), c.int(0, 4)]
    elif mode == "multi":
        nv = c.weighted([(2, 4), (3, 2)])
        sc["domains"], sc["vars"] = [], []
        serial = 0
        for i in range(nv):
            n = c.int(1, 4)
            sc["domains"].append({"id": i, "kind": c.weighted([("gen", 5), ("sized", 1)]), "items": _items(c, n, serial)})
            serial += n
            sc["vars"].append({"name": f"v{i}", "t": "A", "dom": i})
        conds = []
        for _ in range(c.weighted([(0, 2), (1, 4), (2, 3), (3, 1)])):
            a, b = c.sample(range(nv), 2)
            kind = c.weighted([("join", 5), ("near", 1.5), ("fn", 1.5), ("contains", 1), ("single", 2)])
            if kind == "join":
                conds.append(["cmp", c.weighted([("==", 4), ("<=", 2), ("!=", 1)]), ["attr", ["var", a], c.pick(["a", "b"])], ["attr", ["var", b], c.pick(["a", "b"])]])
            elif kind == "near":
                conds.append(["pred", "Near", {"x": ["var", a], "y": ["var", b]}])
            elif kind == "fn":
                conds.append(["fn", "same_b", {"x": ["var", a], "y": ["var", b]}])
            elif kind == "contains":
                conds.append(["contains", ["attr", ["var", a], "xs"], ["attr", ["var", b], "a"]])
            else:
                conds.append(["cmp", c.pick(eval_gen.CMP_OPS), ["attr", ["var", a], "a"], ["lit", c.int(0, 3)]])
        if c.chance(0.75):
            sel = [["var", i] for i in c.shuffle(range(nv))]
            shape = "set_of"
        else:
            sel = [["var", c.int(0, nv - 1)]]
            shape = "entity"
        sc["queries"] = [{"q": "an", "shape": shape, "sel": sel, "conds": conds}]
    elif mode == "forall":
        # for_all whose universal variable ranges over a stream: once every candidate is refuted the stream must not
        # be pulled any further (with an unbounded stream: the evaluation must end at all)
        n = c.int(1, 4)
        unbounded = c.chance(0.5)
        refuter_at = c.int(0, 3)
        pattern = [c.int(0, 3) for _ in range(refuter_at)] + [9] + [c.int(0, 3) for _ in range(c.int(0, 2))]
        sc["domains"] = [{"id": 0, "kind": c.pick(["list", "gen"]), "items": _items(c, n, 0)}]
        if unbounded:
            sc["domains"].append({"id": 1, "kind": "inf", "t": "A", "pattern": pattern, "items": []})
        else:
            witems = _items(c, len(pattern) + c.int(0, 3), 100)
            for i, it in enumerate(witems):
                it["a"] = pattern[i] if i < len(pattern) else c.int(0, 3)
            sc["domains"].append({"id": 1, "kind": "gen", "items": witems})
        for it in sc["domains"][0]["items"]:
            it["ref"] = None
        sc["vars"] = [{"name": "v0", "t": "A", "dom": 0}, {"name": "v1", "t": "A", "dom": 1}]
        # v0.a >= v1.a holds for no candidate once the universal variable reaches the element with a == 9
        sc["queries"] = [{"q": "an", "shape": "entity", "sel": [["var", 0]], "conds": [["forall", ["var", 1], ["cmp", ">=", ["attr", ["var", 0], "a"], ["attr", ["var", 1], "a"]]]]}]
        sc["forall_refuter_index"] = refuter_at
    elif mode == "pattern":
        # pattern matching: entity_matching(T, stream)(attr=literal | item | match(T)(...))
        n = c.int(1, 5)
        items = _items(c, n, 0)
        for it in items:
            it["t"] = "P"
            it["ref"] = c.pick(list(range(n))) if c.chance(0.85) else None
        sc["domains"] = [{"id": 0, "kind": c.weighted([("gen", 4), ("list", 1)]), "items": items}]
        sc["vars"] = []
        kw = {}
        model = c.pick(items)  # the pattern is modelled on one element so that most patterns match something
        like = c.chance(0.75)
        for name in c.sample(["a", "b", "ref", "xs"], c.int(1, 3)):
            if name in ("a", "b"):
                kw[name] = ["lit", model[name] if like else c.int(0, 3)]
            elif name == "xs":
                kw[name] = ["lit", c.pick(model["xs"]) if (like and model["xs"]) else c.pick([c.int(0, 3), [c.int(0, 3) for _ in range(c.int(1, 2))]])]
            elif model["ref"] is None:
                continue
            elif c.chance(0.5):
                kw[name] = ["item", model["ref"] if like else c.int(0, n - 1)]
            else:
                inner = c.pick(["a", "b"])
                kw[name] = ["match", {"t": "P", "kw": {inner: ["lit", items[model["ref"]][inner] if like else c.int(0, 3)]}}]
        if not kw:
            kw["a"] = ["lit", model["a"]]
        sc["queries"] = [{"q": "the" if c.chance(0.15) else "an", "pattern": {"t": "P", "dom": 0, "kw": kw}}]
    else:  # endless
        pattern = [c.int(0, 3) for _ in range(c.int(1, 4))]
        sc["domains"] = [{"id": 0, "kind": "inf", "t": "A", "pattern": pattern, "items": []}]
        sc["vars"] = [{"name": "v0", "t": "A", "dom": 0}]
        v = ["var", 0]
        conds = []
        if c.chance(0.75):
            conds.append(["cmp", c.pick(eval_gen.CMP_OPS), ["attr", v, "a"], ["lit", c.int(0, 3)]])
        if c.chance(0.2):
            conds.append(["pred", "Big", {"x": v, "k": c.int(0, 2)}])
        sc["queries"] = [{"q": "an", "shape": "entity", "sel": [v], "conds": conds}]
    # schedule: one task per query, stop after k results, then abandon somehow
    ops = []
    q = sc["queries"][0]
    if q["q"] == "the":
        ops.append(["the", 0])
    else:
        ops.append(["start", 0, 0])
        if c.chance(0.2):
            ops.append(["gc"])
        k = c.weighted([(0, 1), (1, 3), (2, 3), (3, 2), (5, 2), (9, 1)])
        for i in range(k):
            ops.append(["step", 0])
            if c.chance(0.1):
                ops.append(["gc"])
        if mode != "endless" and c.chance(0.35):
            ops.append(["drain", 0])
        end = c.weighted([("close", 3), ("drop", 3), ("leave", 3)])
        if end != "leave":
            ops.append([end, 0])
        if c.chance(0.3):
            ops.append(["gc"])
        if end != "leave" and not q.get("rule") and not _has_tag(q, ("stream",)) and c.chance(0.3):
            # (not with a one-shot stream in literal position: the first evaluation consumes it, by construction)
            # the abandoned query is evaluated AGAIN: what the first evaluation pulled is replayed from the variable's
            # cache, nothing beyond it may be pulled before it is needed
            ops.append(["start", 1, 0])
            for i in range(c.int(1, k + 2)):
                ops.append(["step", 1])
            if c.chance(0.5):
                ops.append([c.pick(["close", "drop"]), 1])
    sc["ops"] = ops
    return sc


# ------------------------------------------------------------------------ execution


def _has_tag(e, tags) -> bool:
    if isinstance(e, list):
        if e and e[0] in tags:
            return True
        return any(_has_tag(x, tags) for x in e)
    if isinstance(e, dict):
        return any(_has_tag(x, tags) for x in e.values())
    return False


def _vars(e, out):
    if isinstance(e, list):
        if e and e[0] == "var":
            out.add(e[1])
        for x in e:
            _vars(x, out)
    elif isinstance(e, dict):
        for x in e.values():
            _vars(x, out)
    return out


def execute(scenario: Dict) -> Dict:
    from . import eval_sim
    from .eval_sim import Built, BuildError, isolated_reference, exc_name, STEP_CAP

    log = kernel.EventLog()
    counters = kernel.Counters()
    verdicts: List[Dict] = []
    nq = len(scenario["queries"])
    endless = any(d["kind"] == "inf" for d in scenario["domains"])

    refs = {}
    period_ok = {}
    for qi in range(nq):
        if endless:
            variant = copy.deepcopy(scenario)
            for d in variant["domains"]:
                if d["kind"] == "inf":
                    d["kind"] = "list"
                    d["items"] = [{"s": 100000 * (d["id"] + 1) + i, "t": d.get("t", "A"), "a": a, "b": i % 3, "xs": [a], "ref": None} for i, a in enumerate(d["pattern"] * 3)]
            pr = isolated_reference(variant, qi)
            period_ok[qi] = (len(pr["results"]) >= 1 and pr["end"] == "stop", pr["events"])
            log.add("period-ref", qi, pr["results"], pr["end"])
        else:
            refs[qi] = isolated_reference(scenario, qi)
            log.add("ref", qi, refs[qi]["results"], refs[qi]["end"])

    mon = Monitor()
    try:
        built = Built(scenario, mon)
    except BuildError:
        return eval_sim._result(log, counters, [], False, 0, note="invalid-scenario")
    except FuseBlown:
        raise
    except Exception as e:
        counters.inc("build_refused")
        log.add("build-exc", exc_name(e))
        # construction refused by the engine: user code must still not have run
        built = None
    build_events = [e for e in mon.events if e[1] == "BUILD"]
    if build_events:
        first = build_events[0]
        verdicts.append(kernel.verdict("C10.L1", f"{len(build_events)} user-code events while the queries were constructed, first: {list(first[2:])}", phase="BUILD", via=first[2]))
    log.add("build-events", [list(e[2:]) for e in build_events])
    if built is None:
        return eval_sim._result(log, counters, verdicts, False, 0, note="build-refused")

    # eligibility for the demand rules
    elig5, elig6 = {}, {}
    for qi, qd in enumerate(scenario["queries"]):
        vs = _vars([qd.get("sel", []), qd.get("conds", []), qd.get("rule") or []], set())
        kinds = {v: next((d["kind"] for d in scenario["domains"] if d["id"] == scenario["vars"][v]["dom"]), None) for v in vs if v < len(scenario["vars"])}
        # a result-count constraint never needs to look ahead: results are handed out as they are found
        plain = qd.get("q") == "an" and not _has_tag([qd.get("conds", []), qd.get("rule") or []], ("exists", "forall", "subq", "shared"))
        is_rule = bool(qd.get("rule"))
        if is_rule and '"next"' in kernel.canonical(qd["rule"]):
            plain = False  # next_rule is a union: it evaluates both branches over the whole domain by design
        # or_ over operands with different variable sets (a predicate/function call is a variable of its own)
        # is a union: it evaluates both sides over the whole domain by design
        union_like = _has_tag([qd.get("conds", [])], ("or",)) and _has_tag([qd.get("conds", [])], ("pred", "fn"))
        plain = plain and not union_like
        distinct_doms = len({scenario["vars"][v]["dom"] for v in kinds}) == len(kinds)
        # a rule query over one variable infers one instance per binding; the binding's element is read from the
        # inferred instance's keyword arguments
        elig5[qi] = plain and len(vs) == 1 and qd.get("shape") == "entity" and (is_rule or qd["sel"] == [["var", next(iter(vs))]]) and all(k in ("gen", "inf", "sized") for k in kinds.values())
        plain = plain and not is_rule
        elig6[qi] = (plain and len(vs) >= 2 and distinct_doms and all(k in ("gen", "sized") for k in kinds.values())
                     and not _has_tag([qd.get("conds", [])], ("or", "not", "flatten"))
                     and all(isinstance(s, list) and s[0] == "var" for s in qd["sel"]))
    for qi, qd in enumerate(scenario["queries"]):
        if qd.get("pattern") and qd.get("q") == "an":
            # a pattern constrains the attributes of ONE variable: the demand rule of single-variable queries applies
            dom = next((d for d in scenario["domains"] if d["id"] == qd["pattern"]["dom"]), None)
            elig5[qi] = bool(dom) and dom["kind"] == "gen"
            elig6[qi] = False
    pos = {}
    for d in scenario["domains"]:
        for i, it in enumerate(d["items"]):
            pos[it["s"]] = (d["id"], i)

    def position_of(serial):
        if serial in pos:
            return pos[serial]
        if serial >= 100000:
            return (serial // 100000 - 1, serial % 100000)
        return None

    tasks = {}
    nontrivial = False
    max_events = max([r["events"] for r in refs.values()] + [pe[1] for pe in period_ok.values()] + [0])
    fuse = 50 * max_events + 400

    def check_demand(task, value):
        qi = task["qi"]
        if scenario.get("mode") == "inner" and isinstance(value, list) and value and value[0] == "i":
            # L8: the k-th result for item s is its k-th matching inner element; the inner producer has been pulled
            # exactly that far
            qd0 = scenario["queries"][qi]
            cond = qd0["conds"][0]
            item = next((it for d in scenario["domains"] for it in d["items"] if it["s"] == value[1]), None)
            if item is not None and cond[0] == "cmp" and cond[2][0] == "flatten":
                import operator as _op

                fn = {"==": _op.eq, "!=": _op.ne, "<": _op.lt, "<=": _op.le, ">": _op.gt, ">=": _op.ge}[cond[1]]
                matches = [i for i, x in enumerate(item["xs"]) if fn(x, cond[3][1])]
                nth = task.setdefault("per_item", {}).get(value[1], 0)
                task["per_item"][value[1]] = nth + 1
                if nth < len(matches):
                    pulled = mon.inner_pulls.get(value[1], 0)
                    counters.inc("probe.L8_checked")
                    if pulled != matches[nth] + 1:
                        verdicts.append(kernel.verdict("C10.L8", f"holding the result for inner element #{matches[nth] + 1} of item {value[1]}'s lazily produced collection, {pulled} of its elements have been pulled", phase="STEP", via="inner-over-pull" if pulled > matches[nth] + 1 else "inner-under-pull", query=qi))
                        task["flagged"] = True
        probe_value = value
        if elig5.get(qi) and isinstance(value, list) and value and value[0] == "k":
            items = [x[1] for x in value[2] if isinstance(x[1], list) and x[1] and x[1][0] == "i"]
            probe_value = items[0] if items else None
        if elig5.get(qi) and isinstance(probe_value, list) and probe_value and probe_value[0] == "i":
            value5 = probe_value
            p = position_of(value5[1])
            if p is not None:
                pulled = mon.pulls.get(p[0], 0)
                counters.inc("probe.L5_checked")
                # (a re-evaluation replays what earlier evaluations of the variable pulled: the demand is exact beyond that)
                if pulled != max(p[1] + 1, task.get("pulled_at_start", {}).get(p[0], 0)):
                    verdicts.append(kernel.verdict("C10.L5", f"holding the result that is stream element #{p[1] + 1} of domain {p[0]}, {pulled} elements have been pulled", phase="STEP", via="over-pull" if pulled > p[1] + 1 else "under-pull", query=qi))
                    task["flagged"] = True
        if elig6.get(qi) and not any(task.get("pulled_at_start", {}).values()):
            # (L6 is stated for first passes over fresh streams; a re-evaluation replays the variables' caches)
            row = {}
            if isinstance(value, list) and value and value[0] == "row":
                for label, val in value[1]:
                    if isinstance(val, list) and val and val[0] == "i":
                        row[label] = val[1]
            elif isinstance(value, list) and value and value[0] == "i":
                row["?"] = value[1]
            exact = False
            placed = []
            for label, serial in row.items():
                p = position_of(serial)
                if p is not None:
                    placed.append((p[1], mon.pulls.get(p[0], 0)))
                    if mon.pulls.get(p[0], 0) == p[1] + 1:
                        exact = True
            qd = scenario["queries"][qi]
            complete = len(row) == len(_vars([qd.get("sel", []), qd.get("conds", [])], set())) and "?" not in row and len(placed) == len(row)
            if complete:
                # Any lazy nested-loop evaluation, whatever join order it picks, satisfies: the outermost variable has
                # been pulled exactly as far as its element of the row, and as long as all outer variables are still on
                # their first element every inner stream is on its first pass, so it too has been pulled exactly as far
                # as its element.  (Once an outer variable has advanced, inner streams may be exhausted.)
                import itertools

                def fits(order):
                    first_pass = True
                    for pos, pulled in order:
                        if first_pass and pulled != pos + 1:
                            return False
                        if pulled < pos + 1:
                            return False
                        first_pass = first_pass and pos == 0
                    return True

                if any(fits(order) for order in itertools.permutations(placed)):
                    counters.inc("probe.L6_nested_loop_order_found")
                else:
                    counters.inc("probe.L6_checked_failed")
                    verdicts.append(kernel.verdict("C10.L6", f"holding the row {row}, the streams have been pulled further than any lazy nested-loop order needs (positions and pulls: {placed})", phase="STEP", via="no-driver" if not exact else "inner-over-pull", query=qi))
                    task["flagged"] = True
            elif exact:
                counters.inc("probe.L6_driver_found")
            else:
                counters.inc("probe.L6_inconclusive")

    def step(task) -> bool:
        if task["state"] not in ("new", "live"):
            return False
        task["state"] = "live"
        mon.phase = "STEP"
        mon.step_events = 0
        mon.fuse = fuse
        counters.inc("task_steps")
        try:
            value = next(task["it"])
        except StopIteration:
            task["state"] = "done"
            log.add("end", task["tid"], "stop")
            if scenario.get("mode") == "forall" and not task.get("flagged"):
                # L9: the universal stream is pulled exactly until every candidate is refuted
                cands = [it["a"] for it in scenario["domains"][0]["items"] if it["t"] in ("A", "A2")]
                wdom = scenario["domains"][1]
                values = (wdom["pattern"] * 50) if wdom["kind"] == "inf" else [it["a"] for it in wdom["items"]]
                expected = len(values)
                for i, w in enumerate(values):
                    cands = [a for a in cands if a >= w]
                    if not cands:
                        expected = i + 1
                        break
                pulled = mon.pulls.get(1, 0)
                counters.inc("probe.L9_checked")
                if pulled != expected and not task["results"]:
                    verdicts.append(kernel.verdict("C10.L9", f"for_all: every candidate is refuted after {expected} elements of the universal stream, {pulled} have been pulled", phase="STEP", via="universal-over-pull" if pulled > expected else "universal-under-pull", query=task["qi"]))
                    task["flagged"] = True
            return False
        except FuseBlown:
            task["state"] = "failed"
            log.add("end", task["tid"], "fuse")
            qi = task["qi"]
            if scenario.get("mode") == "forall":
                verdicts.append(kernel.verdict("C10.L7", f"for_all over an unbounded universal stream does not end although every candidate is refuted after {scenario.get('forall_refuter_index', 0) + 1} of its elements (more than {fuse} user-code events in one step)", phase="STEP", via="forall-unbounded", query=qi))
            elif endless and period_ok.get(qi, (False, 0))[0]:
                verdicts.append(kernel.verdict("C10.L7", f"a step of query {qi} over an unbounded stream consumed more than {fuse} user-code events although every period of the stream contains a result", phase="STEP", via="unbounded", query=qi))
            elif not endless and refs[qi]["end"] != "fuse":
                verdicts.append(kernel.verdict("C10.L7", f"a step of query {qi} consumed more than {fuse} events", phase="STEP", via="bounded", query=qi))
            else:
                counters.inc("probe.endless_without_match")
            return False
        except Exception as e:
            task["state"] = "failed"
            end = "exc:" + exc_name(e)
            log.add("end", task["tid"], end)
            task["end"] = end
            return False
        finally:
            mon.phase = "IDLE"
            mon.fuse = None
        value = built.norm(value)
        log.add("res", task["tid"], value)
        task["results"].append(value)
        if not task.get("flagged"):
            check_demand(task, value)
        return True

    for op in scenario["ops"]:
        kind = op[0]
        if kind == "start":
            _, tid, qi = op
            if tid in tasks or qi >= nq or scenario["queries"][qi].get("q") == "the" or any(t["qi"] == qi and t["state"] in ("new", "live") for t in tasks.values()):
                counters.inc("ops_skipped")
                continue
            mon.phase = "CALL"
            try:
                it = built.queries[qi].evaluate()
            except Exception as e:
                log.add("start-exc", tid, exc_name(e))
                mon.phase = "IDLE"
                continue
            mon.phase = "IDLE"
            tasks[tid] = {"tid": tid, "qi": qi, "it": it, "state": "new", "results": [], "pulled_at_start": dict(mon.pulls)}
            if any(t["qi"] == qi for t in tasks.values() if t["tid"] != tid):
                counters.inc("fault.reevaluation_after_abandonment")
            log.add("start", tid, qi)
        elif kind in ("step", "drain"):
            t = tasks.get(op[1])
            if t is None or t["state"] not in ("new", "live"):
                counters.inc("ops_skipped")
                continue
            if kind == "step":
                step(t)
            else:
                n = 0
                while step(t) and n < STEP_CAP:
                    n += 1
        elif kind in ("close", "drop", "dropcycle"):
            t = tasks.get(op[1])
            if t is None or t["state"] not in ("new", "live"):
                counters.inc("ops_skipped")
                continue
            if t["state"] == "live":
                counters.inc("fault.abandon_by_" + ("close" if kind == "close" else "drop"))
                counters.inc("fault.stop_after_k")
            mon.phase = "CLOSE" if kind == "close" else "DROP"
            try:
                if kind == "close":
                    t["it"].close()
                t["it"] = None
            except Exception as e:
                log.add("close-exc", exc_name(e))
            mon.phase = "IDLE"
            t["state"] = "closed"
            log.add(kind, t["tid"])
        elif kind == "gc":
            mon.phase = "GC"
            gc.collect()
            mon.phase = "IDLE"
            counters.inc("fault.gc")
        elif kind == "the":
            qi = op[1]
            if qi >= nq or scenario["queries"][qi].get("q") != "the":
                counters.inc("ops_skipped")
                continue
            mon.phase = "THE"
            mon.step_events = 0
            mon.fuse = fuse
            try:
                got = ["ok", built.norm(built.queries[qi].evaluate())]
            except FuseBlown:
                got = ["fuse"]
            except Exception as e:
                got = ["exc:" + exc_name(e)]
            mon.phase = "IDLE"
            mon.fuse = None
            log.add("the", qi, got)
        else:
            counters.inc("ops_skipped")

    # L2 / L3: no user code outside steps
    quiet = [e for e in mon.events if e[1] in QUIET_PHASES]
    if quiet:
        first = quiet[0]
        rule = "C10.L2" if first[1] == "CALL" else "C10.L3"
        verdicts.append(kernel.verdict(rule, f"{len(quiet)} user-code events while the consumer was in phase {first[1]}, first: {list(first[2:])}", phase=first[1], via=first[2]))
    # L4: prefix of the isolated evaluation
    for t in tasks.values():
        if endless or t.get("flagged"):
            continue
        ref = refs[t["qi"]]
        if ref["end"] in ("cap", "fuse") or ref["end"].startswith("build:"):
            continue
        got = t["results"]
        if got != ref["results"][: len(got)]:
            verdicts.append(kernel.verdict("C10.L4", f"the first {len(got)} results {got} are not a prefix of the isolated evaluation {ref['results']}", phase="STEP", via="prefix", query=t["qi"]))
        elif t["state"] == "done" and len(got) != len(ref["results"]) and ref["end"] == "stop":
            verdicts.append(kernel.verdict("C10.L4", f"evaluation ended after {len(got)} results, the isolated evaluation gives {len(ref['results'])}", phase="STEP", via="prefix", query=t["qi"]))
        elif t["state"] == "failed" and t.get("end") and (t["end"] != ref["end"] or len(got) != len(ref["results"])):
            verdicts.append(kernel.verdict("C10.L4", f"evaluation raised {t['end']} after {len(got)} results, the isolated evaluation: {ref['end']} after {len(ref['results'])}", phase="STEP", via="exception", query=t["qi"]))
    for d in scenario["domains"]:
        if d["kind"] in ("gen", "inf", "sized") and (len(d["items"]) >= 2 or d["kind"] == "inf") and mon.seq > 0:
            nontrivial = True
    counters.inc("user_events", mon.seq)
    counters.inc("mode." + scenario.get("mode", "?"))
    if any(elig5.values()):
        counters.inc("probe.L5_eligible_runs")
    if any(elig6.values()):
        counters.inc("probe.L6_eligible_runs")
    if endless:
        counters.inc("probe.endless_runs")
    shape = kernel.short_hash([eval_sim._shape_of(scenario), scenario["ops"], [d["kind"] for d in scenario["domains"]]])
    return eval_sim._result(log, counters, verdicts, nontrivial, shape)
