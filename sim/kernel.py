"""
Simulation kernel: seeding, event log, digests, verdict records.

One integer decides everything: every run derives one `random.Random` from
(VERIF_SEED, property id, run index) through splitmix64.  Generation draws from
that PRNG and produces an explicit, JSON-serialisable scenario (world + op list);
execution interprets the scenario and never draws from a PRNG or reads a clock.
"""
from __future__ import annotations

import hashlib
import json
import random
from typing import Any, Dict, List

MASK = (1 << 64) - 1
DEFAULT_SEED = 20261002


def splitmix64(x: int) -> int:
    x = (x + 0x9E3779B97F4A7C15) & MASK
    z = x
    z = ((z ^ (z >> 30)) * 0xBF58476D1CE4E5B9) & MASK
    z = ((z ^ (z >> 27)) * 0x94D049BB133111EB) & MASK
    return z ^ (z >> 31)


def _str_to_int(s: str) -> int:
    return int.from_bytes(hashlib.blake2b(s.encode(), digest_size=8).digest(), "big")


def run_seed(verif_seed: int, prop: str, index: int) -> int:
    """The one integer a run is a function of."""
    x = splitmix64(verif_seed & MASK)
    x = splitmix64(x ^ _str_to_int(prop))
    x = splitmix64(x ^ (index & MASK))
    return x


def run_rng(verif_seed: int, prop: str, index: int) -> random.Random:
    return random.Random(run_seed(verif_seed, prop, index))


def canonical(obj: Any) -> str:
    return json.dumps(obj, sort_keys=True, separators=(",", ":"), default=_default)


def _default(o):
    if isinstance(o, (set, frozenset)):
        return sorted(o, key=canonical)
    if isinstance(o, tuple):
        return list(o)
    return repr(o)


def digest(obj: Any) -> str:
    return hashlib.blake2b(canonical(obj).encode(), digest_size=12).hexdigest()


def short_hash(obj: Any) -> int:
    """63-bit integer hash of a canonical JSON value (for distinctness counting)."""
    return int.from_bytes(
        hashlib.blake2b(canonical(obj).encode(), digest_size=8).digest(), "big"
    ) >> 1


class EventLog:
    """
    Ordered record of everything rule-relevant that happened in a run.  Only
    serial numbers and normalised values go in - never id()s, addresses or reprs
    that contain them - so that the digest is a function of the scenario alone.
    """

    def __init__(self):
        self.events: List[Any] = []

    def add(self, *event):
        self.events.append(event)

    def digest(self) -> str:
        return digest(self.events)


class Counters(dict):
    def inc(self, key: str, n: int = 1):
        self[key] = self.get(key, 0) + n


def verdict(rule: str, detail: str, **features) -> Dict[str, Any]:
    return {"rule": rule, "detail": detail, "features": features}


class Chooser:
    """Thin helper around random.Random for generators."""

    def __init__(self, rng: random.Random):
        self.rng = rng

    def chance(self, p: float) -> bool:
        return self.rng.random() < p

    def pick(self, seq):
        return seq[self.rng.randrange(len(seq))]

    def weighted(self, pairs):
        total = sum(w for _, w in pairs)
        r = self.rng.random() * total
        for v, w in pairs:
            r -= w
            if r < 0:
                return v
        return pairs[-1][0]

    def int(self, lo: int, hi: int) -> int:
        return self.rng.randint(lo, hi)

    def sample(self, seq, k):
        return self.rng.sample(list(seq), k)

    def shuffle(self, seq):
        seq = list(seq)
        self.rng.shuffle(seq)
        return seq
