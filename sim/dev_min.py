"""Developer tool: minimise the failing run with the given index and print it."""
import sys, os, json
os.environ.setdefault("KRROOD_VERIF", "1")
sys.path.insert(0, os.environ.get("KRROOD_SRC", "/repo/src")); sys.path.insert(0, "/verif")
import importlib
from sim import procs, kernel, minimise
mname, prop, index = sys.argv[1], sys.argv[2], int(sys.argv[3])
machine = importlib.import_module("sim.machines." + mname)
cfg = {"property": prop, "tier": "quick"}
sc = procs.generate_scenario(machine, kernel.DEFAULT_SEED, prop, index, cfg)
res = procs.execute_scenario(machine, sc)
print([ (v["rule"], v["detail"]) for v in res["verdicts"]])
v = res["verdicts"][int(sys.argv[4]) if len(sys.argv) > 4 else 0]
pred = lambda r: any(machine.same_class(v, x) for x in r.get("verdicts", []))
small = minimise.minimise(machine, sc, pred)
r2 = procs.execute_scenario(machine, small)
print(json.dumps({k: small[k] for k in small if k not in ("salt",)}))
print([(x["rule"], x["detail"]) for x in r2["verdicts"]])
json.dump(small, open(f"/tmp/min_{prop}_{index}.json", "w"))
