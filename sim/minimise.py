"""
Minimisation of failing scenarios: ddmin over the op list, then greedy scenario
simplifiers supplied by the machine.  Every candidate is executed in a fresh child;
it is accepted when the target predicate still holds for its result.
"""
from __future__ import annotations

import copy
import time
from typing import Callable, Dict, Iterable, List

from . import procs


class Budget:
    def __init__(self, execs: int, seconds: float):
        self.execs = execs
        self.deadline = time.monotonic() + seconds
        self.used = 0

    def ok(self) -> bool:
        return self.used < self.execs and time.monotonic() < self.deadline


def _try(machine, scenario: Dict, pred: Callable[[Dict], bool], budget: Budget, wall_cap: float) -> bool:
    budget.used += 1
    res = procs.execute_scenario(machine, scenario, wall_cap)
    if res.get("timeout") or "harness_error" in res:
        return bool(pred(res)) if res.get("timeout") else False
    return bool(pred(res))


def ddmin_list(machine, scenario: Dict, key: str, pred, budget: Budget, wall_cap: float) -> Dict:
    items: List = list(scenario[key])
    n = 2
    while len(items) >= 1 and budget.ok():
        chunk = max(1, len(items) // n)
        reduced = False
        start = 0
        while start < len(items) and budget.ok():
            candidate_items = items[:start] + items[start + chunk:]
            cand = dict(scenario)
            cand[key] = candidate_items
            if _try(machine, cand, pred, budget, wall_cap):
                items = candidate_items
                scenario = cand
                n = max(n - 1, 2)
                reduced = True
            else:
                start += chunk
        if not reduced:
            if chunk == 1:
                break
            n = min(len(items), n * 2)
    out = dict(scenario)
    out[key] = items
    return out


def minimise(
    machine,
    scenario: Dict,
    pred: Callable[[Dict], bool],
    execs: int = 600,
    seconds: float = 30.0,
    wall_cap: float = 10.0,
) -> Dict:
    budget = Budget(execs, seconds)
    original_ops = len(scenario.get("ops", []))
    scenario = copy.deepcopy(scenario)
    for key in getattr(machine, "DDMIN_KEYS", ["ops"]):
        if key in scenario and isinstance(scenario[key], list):
            scenario = ddmin_list(machine, scenario, key, pred, budget, wall_cap)
    shrink = getattr(machine, "shrink_candidates", None)
    progress = True
    while shrink and progress and budget.ok():
        progress = False
        for cand in shrink(scenario):
            if not budget.ok():
                break
            if _try(machine, cand, pred, budget, wall_cap):
                scenario = cand
                progress = True
                break
    for key in getattr(machine, "DDMIN_KEYS", ["ops"]):
        if key in scenario and isinstance(scenario[key], list) and budget.ok():
            scenario = ddmin_list(machine, scenario, key, pred, budget, wall_cap)
    scenario["minimised_from"] = {"ops": original_ops, "candidate_executions": budget.used}
    return scenario
