"""
Harness-owned Symbol classes for the lifecycle (Sim-L) and ontology (Sim-O)
simulators.

1. A small class hierarchy for domain-less variables (C13, C20):
       T0 <- T1 <- T2,  T0 <- T3,  diamond T4(T1, T3),  unrelated U0
2. An ontology with descriptor-managed fields (C14, C15, C16, C20), declared twice:
   as real krrood code below and as the plain table ONTOLOGY from which the
   reference closure is computed.  The table is the single source for both.

All classes have identity semantics and a hash derived from a serial number and a
per-run salt, so that set order is an input the scheduler controls.
"""
from __future__ import annotations

from dataclasses import dataclass, field

from typing_extensions import List, Set, Type

from krrood.class_diagrams.utils import Role
from krrood.entity_query_language.predicate import Symbol
from krrood.ontomatic.property_descriptor.mixins import HasInverseProperty, TransitiveProperty
from krrood.ontomatic.property_descriptor.property_descriptor import PropertyDescriptor

SALT = [0]
# Fault seam: while FAULT[0] is a number, the k-th next call of a user object's __hash__ raises InjectedFault
# (user code failing in the middle of whatever krrood operation called it); armed and disarmed by the machines.
FAULT = [None]


class InjectedFault(RuntimeError):
    pass


class _Ident:
    def __hash__(self):
        if FAULT[0] is not None:
            FAULT[0] -= 1
            if FAULT[0] < 0:
                FAULT[0] = None
                raise InjectedFault("user __hash__ failed")
        return hash((self.serial, SALT[0]))

    def __eq__(self, other):
        return self is other

    def __repr__(self):
        return f"{type(self).__name__}#{self.serial}"


# ---------------------------------------------------------------- hierarchy (C13/C20)


@dataclass(eq=False, repr=False)
class T0(_Ident, Symbol):
    serial: int


@dataclass(eq=False, repr=False)
class T1(T0):
    pass


@dataclass(eq=False, repr=False)
class T2(T1):
    pass


@dataclass(eq=False, repr=False)
class T3(T0):
    pass


@dataclass(eq=False, repr=False)
class T4(T1, T3):
    pass


@dataclass(eq=False, repr=False)
class U0(_Ident, Symbol):
    serial: int


@dataclass(eq=False, repr=False)
class F0(T0):
    """A container-like symbol: it is falsy while it is empty (defines __len__)."""

    parts: List[int] = field(default_factory=list)

    def __len__(self):
        return len(self.parts)


HIERARCHY = {"T0": T0, "T1": T1, "T2": T2, "T3": T3, "T4": T4, "U0": U0, "F0": F0}
SUBCLASSES = {
    "T0": ["T0", "T1", "T2", "T3", "T4", "F0"],
    "T1": ["T1", "T2", "T4"],
    "T2": ["T2"],
    "T3": ["T3", "T4"],
    "T4": ["T4"],
    "U0": ["U0"],
    "F0": ["F0"],
}

# ---------------------------------------------------------------- ontology


@dataclass(eq=False, repr=False)
class Org(_Ident, Symbol):
    serial: int
    members: Set[Human] = field(default_factory=set)
    sub_org_of: List[Org] = field(default_factory=list)
    partners: Set[Org] = field(default_factory=set)
    funds: List[Org] = field(default_factory=list)
    related: Set[Org] = field(default_factory=set)


@dataclass(eq=False, repr=False)
class Human(_Ident, Symbol):
    serial: int
    works_for: Org = None
    member_of: List[Org] = field(default_factory=list)


@dataclass(eq=False, repr=False)
class Boss(_Ident, Role[Human], Symbol):
    human: Human
    serial: int = 0
    head_of: Org = None


@dataclass(eq=False, repr=False)
class Dean(_Ident, Role[Human], Symbol):
    """A role that owns a super-property field itself (employed_by: WorksFor) next to its sub-property (dean_of: HeadOf)."""

    human: Human
    serial: int = 0
    dean_of: Org = None
    employed_by: Org = None


@dataclass(eq=False, repr=False)
class Envoy(_Ident, Symbol):
    """Has a field for a sub-sub-property (Chairs < HeadOf < WorksFor < MemberOf) and for the top property, nothing in between."""

    serial: int
    chairs: Org = None
    affiliated: List[Org] = field(default_factory=list)


@dataclass(eq=False, repr=False)
class Zone(_Ident, Symbol):
    """part_of is transitive, has the inverse has_part and the super-property located_in."""

    serial: int
    part_of: List[Zone] = field(default_factory=list)
    has_part: Set[Zone] = field(default_factory=set)
    located_in: List[Zone] = field(default_factory=list)


@dataclass(eq=False, repr=False)
class Clerk(_Ident, Symbol):
    """Has the sub-property field (reports_to: WorksFor) but no field for its super-property."""

    serial: int
    reports_to: Org = None


@dataclass(eq=False, repr=False)
class Officer(Clerk):
    """A subclass that declares the super-property field itself; the sub-property field is inherited."""

    enrolled: List[Org] = field(default_factory=list)


@dataclass(eq=False, repr=False)
class Donor(_Ident, Symbol):
    """Has a field for the sub-property Funds only (no inverses in this chain)."""

    serial: int
    backs: List[Org] = field(default_factory=list)


@dataclass(eq=False, repr=False)
class Patron(Donor):
    """Declares the field of the super-property RelatedTo itself; the sub-property field is inherited."""

    linked: Set[Org] = field(default_factory=set)


@dataclass
class Member(PropertyDescriptor, HasInverseProperty):
    @classmethod
    def get_inverse(cls) -> Type[MemberOf]:
        return MemberOf


@dataclass
class MemberOf(PropertyDescriptor, HasInverseProperty):
    @classmethod
    def get_inverse(cls) -> Type[Member]:
        return Member


@dataclass
class WorksFor(MemberOf):
    pass


@dataclass
class HeadOf(WorksFor):
    pass


@dataclass
class Chairs(HeadOf):
    pass


@dataclass
class SubOrgOf(PropertyDescriptor, TransitiveProperty):
    ...


@dataclass
class PartnerOf(PropertyDescriptor, TransitiveProperty):
    ...


@dataclass
class LocatedIn(PropertyDescriptor):
    ...


@dataclass
class HasPart(PropertyDescriptor, HasInverseProperty):
    @classmethod
    def get_inverse(cls) -> Type[PartOf]:
        return PartOf


@dataclass
class PartOf(LocatedIn, TransitiveProperty, HasInverseProperty):
    @classmethod
    def get_inverse(cls) -> Type[HasPart]:
        return HasPart


@dataclass
class RelatedTo(PropertyDescriptor):
    """Top of a chain without inverses: Funds < Supports < RelatedTo; Org has no field for Supports."""


@dataclass
class Supports(RelatedTo):
    pass


@dataclass
class Funds(Supports):
    pass


Human.works_for = WorksFor(Human, "works_for")
Human.member_of = MemberOf(Human, "member_of")
Boss.head_of = HeadOf(Boss, "head_of")
Dean.dean_of = HeadOf(Dean, "dean_of")
Dean.employed_by = WorksFor(Dean, "employed_by")
Envoy.chairs = Chairs(Envoy, "chairs")
Envoy.affiliated = MemberOf(Envoy, "affiliated")
Org.members = Member(Org, "members")
Org.sub_org_of = SubOrgOf(Org, "sub_org_of")
Org.partners = PartnerOf(Org, "partners")
Org.funds = Funds(Org, "funds")
Org.related = RelatedTo(Org, "related")
Zone.part_of = PartOf(Zone, "part_of")
Zone.has_part = HasPart(Zone, "has_part")
Zone.located_in = LocatedIn(Zone, "located_in")
Clerk.reports_to = WorksFor(Clerk, "reports_to")
Officer.enrolled = MemberOf(Officer, "enrolled")
Donor.backs = Funds(Donor, "backs")
Patron.linked = RelatedTo(Patron, "linked")

ONTOLOGY_CLASSES = {"Org": Org, "Human": Human, "Boss": Boss, "Envoy": Envoy, "Dean": Dean, "Zone": Zone, "Clerk": Clerk, "Officer": Officer, "Donor": Donor, "Patron": Patron}

# The same ontology as a plain table (the reference model reads only this).
# property name -> {domain class, field, kind, range class, supers (property names), inverse, transitive}
ONTOLOGY = {
    "classes": {
        "Org": {"fields": ["members", "sub_org_of", "partners", "funds", "related"], "role_taker": None},
        "Human": {"fields": ["works_for", "member_of"], "role_taker": None},
        "Boss": {"fields": ["head_of"], "role_taker": "human"},
        "Envoy": {"fields": ["chairs", "affiliated"], "role_taker": None},
        "Dean": {"fields": ["dean_of", "employed_by"], "role_taker": "human"},
        "Zone": {"fields": ["part_of", "has_part", "located_in"], "role_taker": None},
        "Clerk": {"fields": ["reports_to"], "role_taker": None},
        # "fields" lists inherited fields too; a property's "cls" is the class that DECLARES the field
        "Officer": {"fields": ["reports_to", "enrolled"], "role_taker": None, "bases": ["Clerk"]},
        "Donor": {"fields": ["backs"], "role_taker": None},
        "Patron": {"fields": ["backs", "linked"], "role_taker": None, "bases": ["Donor"]},
    },
    # property (one per managed field) -> class, field, kind, range, descriptor class, the descriptor classes it
    # specialises (strict supers), the descriptor class of its inverse, transitivity
    "properties": {
        "Member": {"cls": "Org", "field": "members", "kind": "set", "range": "Human", "descriptor": "Member", "supers": [], "inverse": "MemberOf", "transitive": False},
        "MemberOf": {"cls": "Human", "field": "member_of", "kind": "list", "range": "Org", "descriptor": "MemberOf", "supers": [], "inverse": "Member", "transitive": False},
        "WorksFor": {"cls": "Human", "field": "works_for", "kind": "single", "range": "Org", "descriptor": "WorksFor", "supers": ["MemberOf"], "inverse": "Member", "transitive": False},
        "HeadOf": {"cls": "Boss", "field": "head_of", "kind": "single", "range": "Org", "descriptor": "HeadOf", "supers": ["WorksFor", "MemberOf"], "inverse": "Member", "transitive": False},
        "DeanOf": {"cls": "Dean", "field": "dean_of", "kind": "single", "range": "Org", "descriptor": "HeadOf", "supers": ["WorksFor", "MemberOf"], "inverse": "Member", "transitive": False},
        "EmployedBy": {"cls": "Dean", "field": "employed_by", "kind": "single", "range": "Org", "descriptor": "WorksFor", "supers": ["MemberOf"], "inverse": "Member", "transitive": False},
        "Chairs": {"cls": "Envoy", "field": "chairs", "kind": "single", "range": "Org", "descriptor": "Chairs", "supers": ["HeadOf", "WorksFor", "MemberOf"], "inverse": "Member", "transitive": False},
        "MemberOfE": {"cls": "Envoy", "field": "affiliated", "kind": "list", "range": "Org", "descriptor": "MemberOf", "supers": [], "inverse": "Member", "transitive": False},
        "Funds": {"cls": "Org", "field": "funds", "kind": "list", "range": "Org", "descriptor": "Funds", "supers": ["Supports", "RelatedTo"], "inverse": None, "transitive": False},
        "RelatedTo": {"cls": "Org", "field": "related", "kind": "set", "range": "Org", "descriptor": "RelatedTo", "supers": [], "inverse": None, "transitive": False},
        "SubOrgOf": {"cls": "Org", "field": "sub_org_of", "kind": "list", "range": "Org", "descriptor": "SubOrgOf", "supers": [], "inverse": None, "transitive": True},
        "PartnerOf": {"cls": "Org", "field": "partners", "kind": "set", "range": "Org", "descriptor": "PartnerOf", "supers": [], "inverse": None, "transitive": True},
        "PartOf": {"cls": "Zone", "field": "part_of", "kind": "list", "range": "Zone", "descriptor": "PartOf", "supers": ["LocatedIn"], "inverse": "HasPart", "transitive": True},
        "HasPart": {"cls": "Zone", "field": "has_part", "kind": "set", "range": "Zone", "descriptor": "HasPart", "supers": [], "inverse": "PartOf", "transitive": False},
        "LocatedIn": {"cls": "Zone", "field": "located_in", "kind": "list", "range": "Zone", "descriptor": "LocatedIn", "supers": [], "inverse": None, "transitive": False},
        "ReportsTo": {"cls": "Clerk", "field": "reports_to", "kind": "single", "range": "Org", "descriptor": "WorksFor", "supers": ["MemberOf"], "inverse": "Member", "transitive": False},
        "Backs": {"cls": "Donor", "field": "backs", "kind": "list", "range": "Org", "descriptor": "Funds", "supers": ["Supports", "RelatedTo"], "inverse": None, "transitive": False},
        "Linked": {"cls": "Patron", "field": "linked", "kind": "set", "range": "Org", "descriptor": "RelatedTo", "supers": [], "inverse": None, "transitive": False},
        "Enrolled": {"cls": "Officer", "field": "enrolled", "kind": "list", "range": "Org", "descriptor": "MemberOf", "supers": [], "inverse": "Member", "transitive": False},
    },
}


def ancestors_of(cls_name: str):
    out = []
    for b in ONTOLOGY["classes"][cls_name].get("bases", []):
        out.append(b)
        out += ancestors_of(b)
    return out


def is_a(cls_name: str, wanted: str) -> bool:
    return cls_name == wanted or wanted in ancestors_of(cls_name)


# (class, field) -> property, inherited fields included
FIELD_TO_PROPERTY = {}
for _cls, _info in ONTOLOGY["classes"].items():
    for _f in _info["fields"]:
        for _name, _p in ONTOLOGY["properties"].items():
            if _p["field"] == _f and is_a(_cls, _p["cls"]):
                FIELD_TO_PROPERTY[(_cls, _f)] = _name
# class -> the properties its instances have
CLASS_PROPERTIES = {c: [FIELD_TO_PROPERTY[(c, f)] for f in info["fields"]] for c, info in ONTOLOGY["classes"].items()}


# ---------------------------------------------------------------- stub predicates (used by the lifetime workloads)

from typing import Any, ClassVar  # noqa: E402

from krrood.entity_query_language.predicate import Predicate  # noqa: E402


@dataclass(eq=False)
class IsListed(Predicate):
    """A cheap user predicate over one instance."""

    x: Any

    def __call__(self) -> bool:
        return getattr(self.x, "serial", 0) >= 0


@dataclass(eq=False)
class IsAudited(Predicate):
    """A user predicate that declares itself expensive."""

    is_expensive: ClassVar[bool] = True
    x: Any

    def __call__(self) -> bool:
        return getattr(self.x, "serial", 0) >= 0


PREDICATES = {"IsListed": IsListed, "IsAudited": IsAudited}


def fresh_symbol_graph():
    """What a program does after importing its ontology: rebuild the class diagram."""
    from krrood.entity_query_language.symbol_graph import SymbolGraph

    SymbolGraph().clear()
    return SymbolGraph()
