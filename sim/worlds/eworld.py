"""
Harness-owned user code for the evaluation simulator (Sim-E): item classes whose
every attribute read, method call and container access is an event, a stub
Predicate, a stub @symbolic_function, logged domain streams and the classes that
rules infer.  Everything here is a stub standing in for an application's domain
model; the EQL engine that consumes it is the real one.
"""
from __future__ import annotations

from dataclasses import dataclass, field
from typing import Any, List, Optional

from krrood.entity_query_language.predicate import Predicate, Symbol, symbolic_function


class FuseBlown(BaseException):
    """Raised inside user code when one step consumed more events than its fuse allows."""


class Monitor:
    """
    The event monitor: a global logical clock over user-code events.  `hook` is the
    scheduler's pre-emption callback (called after every event, outside logging).
    """

    def __init__(self):
        self.seq = 0
        self.phase = "SETUP"
        self.events: List[tuple] = []
        self.step_events = 0
        self.fuse: Optional[int] = None
        self.hook = None
        self.record = True
        self.pulls = {}
        self.inner_pulls = {}

    def emit(self, kind: str, *detail):
        self.seq += 1
        self.step_events += 1
        if self.record:
            self.events.append((self.seq, self.phase, kind) + detail)
        if self.fuse is not None and self.step_events > self.fuse:
            raise FuseBlown()
        if self.hook is not None:
            self.hook(kind, detail)


MON = Monitor()


def set_monitor(mon: Monitor):
    global MON
    MON = mon


class LoggedList(list):
    """A container attribute whose iteration and membership tests are events."""

    owner_serial = None
    attr_name = None

    def __iter__(self):
        MON.emit("iter", self.owner_serial, self.attr_name)
        return super().__iter__()

    def __contains__(self, item):
        MON.emit("contains", self.owner_serial, self.attr_name)
        return super().__contains__(item)

    def __getitem__(self, k):
        MON.emit("getitem", self.owner_serial, self.attr_name)
        return super().__getitem__(k)

    def __hash__(self):
        return hash(("LL", self.owner_serial, self.attr_name))

    def __eq__(self, other):
        return list.__eq__(self, other)


class Item:
    """Plain user object; identity semantics; hash from its serial number and the run's salt."""

    salt = 0

    def __init__(self, serial, a, b, xs, ref=None):
        self.serial = serial
        self._a = a
        self._b = b
        self._xs = LoggedList(xs)
        self._xs.owner_serial = serial
        self._xs.attr_name = "xs"
        self._ref = ref

    @property
    def a(self):
        MON.emit("get", self.serial, "a")
        return self._a

    @property
    def b(self):
        MON.emit("get", self.serial, "b")
        return self._b

    @property
    def xs(self):
        MON.emit("get", self.serial, "xs")
        return self._xs

    @property
    def gxs(self):
        """A lazily produced collection attribute: a fresh one-shot generator over xs that logs every pull."""
        MON.emit("get", self.serial, "gxs")
        return _inner_stream(self.serial, list(self._xs))

    @property
    def ref(self):
        MON.emit("get", self.serial, "ref")
        return self._ref

    @property
    def name(self):
        MON.emit("get", self.serial, "name")
        return f"item{self.serial}"

    @property
    def label(self):
        MON.emit("get", self.serial, "label")
        return f"item{self.serial}"

    def m(self, k=0):
        MON.emit("call", self.serial, "m")
        return self._a + k

    def __str__(self):
        MON.emit("str", self.serial)
        return repr(self)


    def __hash__(self):
        return hash((self.serial, Item.salt))

    def __eq__(self, other):
        return self is other

    def __repr__(self):
        return f"{type(self).__name__}#{self.serial}"


def _inner_stream(serial, values):
    for index, v in enumerate(values):
        MON.emit("gpull", serial, index)
        MON.inner_pulls[serial] = index + 1
        yield v


class A(Item):
    pass


class B(Item):
    pass


class A2(A):
    pass


_LOGGED_FIELDS = ("a", "b", "xs", "ref")


@dataclass(eq=False, repr=False)
class PItem(Symbol):
    """
    A dataclass Symbol whose public fields log every read: the kind of object pattern matching
    (entity_matching / match) needs - its fields must be known to the class diagram.
    """

    serial: int
    a: int = 0
    b: int = 0
    xs: List[int] = field(default_factory=list)
    ref: Optional["PItem"] = None

    def __getattribute__(self, name):
        if name in _LOGGED_FIELDS:
            MON.emit("get", object.__getattribute__(self, "serial"), name)
        return object.__getattribute__(self, name)

    def __repr__(self):
        return f"PItem#{object.__getattribute__(self, 'serial')}"


ITEM_TYPES = {"A": A, "B": B, "A2": A2, "P": PItem}


@dataclass(eq=False)
class Near(Predicate):
    """Stub predicate: |x.a - y.a| <= 1 (reads through the raw fields, logs one event)."""

    x: Any
    y: Any

    def __call__(self) -> bool:
        MON.emit("pred", "Near", _serial(self.x), _serial(self.y))
        return abs(_raw(self.x, "_a") - _raw(self.y, "_a")) <= 1


@dataclass(eq=False)
class Big(Predicate):
    x: Any
    k: Any

    def __call__(self) -> bool:
        MON.emit("pred", "Big", _serial(self.x), self.k if isinstance(self.k, int) else None)
        return _raw(self.x, "_a") >= (self.k if isinstance(self.k, int) else 0)


@symbolic_function
def same_b(x, y):
    MON.emit("fn", "same_b", _serial(x), _serial(y))
    return _raw(x, "_b") == _raw(y, "_b")


def _serial(v):
    return getattr(v, "serial", None)


def _raw(v, name):
    return getattr(v, name, 0)


PREDICATES = {"Near": Near, "Big": Big}
FUNCTIONS = {"same_b": same_b}


class Inferred:
    """Base of the classes that rule conclusions construct."""

    def __init__(self, **kwargs):
        MON.emit("construct", type(self).__name__)
        self.kwargs = kwargs

    def __repr__(self):
        return f"{type(self).__name__}({self.kwargs})"


class K0(Inferred):
    pass


class K1(K0):
    pass


class K2(K0):
    pass


class K3(K0):
    pass


INFERRED_TYPES = {"K0": K0, "K1": K1, "K2": K2, "K3": K3}


class SizedDomain:
    """A sized, re-iterable user collection (has __len__ and __iter__) whose iteration is observed."""

    def __init__(self, domain_id, items):
        self.domain_id = domain_id
        self.items = items

    def __len__(self):
        MON.emit("len", self.domain_id)
        return len(self.items)

    def __iter__(self):
        return stream(self.domain_id, self.items)


def stream(domain_id, items):
    """A one-shot domain stream that logs every pull with its position."""
    index = 0
    for it in items:
        MON.emit("pull", domain_id, index)
        MON.pulls[domain_id] = index + 1
        yield it
        index += 1
    MON.emit("pull_end", domain_id, index)


class StreamIterator:
    """The same one-shot stream as an iterator object that is not a generator."""

    def __init__(self, domain_id, items):
        self._it = stream(domain_id, items)

    def __iter__(self):
        return self

    def __next__(self):
        return next(self._it)


def one_shot(kind, domain_id, items):
    """A one-shot stream of the given flavour: generator, iterator object, map object, zip-derived, list iterator."""
    if kind == "iter":
        return StreamIterator(domain_id, items)
    if kind == "map":
        return map(lambda x: x, stream(domain_id, items))
    if kind == "chain":
        import itertools

        return itertools.chain(stream(domain_id, items))
    return stream(domain_id, items)


def endless_stream(domain_id, cls, base_serial, pattern):
    """An unbounded domain stream: item i has a = pattern[i % len(pattern)]."""
    index = 0
    while True:
        MON.emit("pull", domain_id, index)
        MON.pulls[domain_id] = index + 1
        a = pattern[index % len(pattern)]
        yield cls(base_serial + index, a, index % 3, [a], None)
        index += 1
