"""
Harness-owned JSON classes for the JSON store simulator (Sim-J): serialiser subclasses
three deep whose payloads nest other serialisable objects and lists, a foreign type
registered in the registry, and the things that are NOT deserialisable classes
(function, constant, type variable, typing alias, module attribute, plain class,
abstract serialiser).
"""
from __future__ import annotations

import json as jsonmod  # a module reachable as an attribute of this module
import uuid
from abc import ABC, abstractmethod
from dataclasses import dataclass, field
from typing import Any, Dict, List, Optional, TypeVar

from krrood.adapters.json_serializer import (
    SubclassJSONSerializer,
    JSONSerializableTypeRegistry,
    JSON_TYPE_NAME,
    from_json,
    to_json,
)
from krrood.utils import get_full_class_name


@dataclass
class Shape(SubclassJSONSerializer):
    name: str

    def to_json(self) -> Dict[str, Any]:
        return {**super().to_json(), "name": self.name}

    @classmethod
    def _from_json(cls, data, **kwargs):
        return cls(name=data["name"])


@dataclass
class Poly(Shape):
    sides: int = 3

    def to_json(self):
        return {**super().to_json(), "sides": self.sides}

    @classmethod
    def _from_json(cls, data, **kwargs):
        return cls(name=data["name"], sides=data["sides"])


@dataclass
class Tri(Poly):
    tag: Optional[uuid.UUID] = None

    def to_json(self):
        return {**super().to_json(), "tag": to_json(self.tag)}

    @classmethod
    def _from_json(cls, data, **kwargs):
        return cls(name=data["name"], sides=data["sides"], tag=from_json(data["tag"]))


class Foreign:
    """A third-party type: no serialiser base class, registered in the registry."""

    def __init__(self, x):
        self.x = x

    def __eq__(self, other):
        return type(other) is Foreign and other.x == self.x


def _ser_foreign(obj: Foreign):
    return {JSON_TYPE_NAME: get_full_class_name(Foreign), "x": obj.x}


def _de_foreign(data, **kwargs):
    return Foreign(data["x"])


JSONSerializableTypeRegistry().register(Foreign, _ser_foreign, _de_foreign)


@dataclass
class Group(SubclassJSONSerializer):
    members: List[Any] = field(default_factory=list)
    leader: Any = None
    extra: Any = None

    def to_json(self):
        return {**super().to_json(), "members": to_json(self.members), "leader": to_json(self.leader), "extra": to_json(self.extra)}

    @classmethod
    def _from_json(cls, data, **kwargs):
        return cls(members=from_json(data["members"]), leader=from_json(data["leader"]), extra=from_json(data["extra"]))


class ForeignChild(Foreign):
    """Derives from a registered type but is not registered itself: not deserialisable."""

    def __init__(self, x=0, extra=None):
        super().__init__(x)
        self.extra = extra


class WriteOnly:
    """A third-party type registered with a serialiser but WITHOUT a deserialiser: it can be written, not read."""

    def __init__(self, x=0):
        self.x = x


JSONSerializableTypeRegistry().register(WriteOnly, lambda obj: {JSON_TYPE_NAME: get_full_class_name(WriteOnly), "x": obj.x}, None)


class UUIDChild(uuid.UUID):
    """A subclass of a registered third-party type; not registered itself."""


@dataclass
class Temp(Shape):
    """A serialiser class whose name the fault injector deletes from / rebinds in this module between two reads."""


class Plain:
    """A class that is neither a serialiser nor registered."""


class AbstractShape(SubclassJSONSerializer, ABC):
    @abstractmethod
    def area(self): ...

    @classmethod
    def _from_json(cls, data, **kwargs):
        return cls()


class NoDeserialiser(SubclassJSONSerializer):
    """A serialiser subclass that does not implement _from_json."""


def helper_function():
    return 1


CONSTANT = 5
TV = TypeVar("TV")
Alias = List[int]

CLASSES = {"Shape": Shape, "Poly": Poly, "Tri": Tri, "Group": Group, "Foreign": Foreign}
