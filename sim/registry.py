"""Per-property configuration of the registered checks."""

REAL_EQL = ["real: krrood EQL engine (symbolic.py, hashed_data.py, conclusion_selector.py, rule.py, conclusion.py, predicate.py, entity.py, utils.py), SymbolGraph singleton, rustworkx, CPython generators and GC",
            "stub: domain item classes, predicate and symbolic-function bodies, domain streams, inferred classes (sim/worlds/eworld.py)"]

COMP_O = ["real: PropertyDescriptor (__get__/__set__/update_value), MonitoredList/MonitoredSet, PropertyDescriptorRelation inference (super, inverse, transitive, role taker), SymbolGraph relation store, class diagram lookups", "stub: ontology classes Org/Human/Boss with six descriptors (sim/worlds/oworld.py); the reference closure is computed from the plain table ONTOLOGY in the same file and never touches krrood"]

PROPERTIES = {
    "C03": {
        "machine": "eval_sim",
        "engine": "Sim-E",
        "level": "exploration",
        "level_text": "Seeded search over histories of evaluate() calls and interleavings of next()/close()/drop/gc steps on 1-3 query objects that share variables, condition nodes or the query object itself, including rule queries; every task is compared, step by step, with the real engine evaluating the same query alone on a freshly built copy of the scenario. Exploration is the right level because the state that can interfere lives on shared expression nodes and domain caches and only a schedule exposes it; the space of schedules is unbounded, so it is sampled (many short diverse runs), not enumerated.",
        "design_ref": "DESIGN.md section 5, C03",
        "level_note": "Trusted: the harness world (sim/worlds/eworld.py), the normalisation of results to serial numbers, and the engine's behaviour in isolation as reference. Assumed: per-run bounds (<=3 queries, <=6 tasks, <=70 ops, <=5 items per domain). One open finding (known_findings.json F-C03-3) is suppressed only when its neutraliser makes the verdict disappear.",
        "technique": "deterministic simulation: seeded cooperative scheduling of evaluation generators with abandonment/gc faults, differential oracle against isolated evaluation, ddmin-minimised replay files",
        "tiers": {
            "quick": {"runs": 10000, "wall_s": 150, "triage_s": 60},
            "thorough": {"runs": 600000, "wall_s": 3000, "triage_s": 300, "cfg": {"reentrant_p": 0.4}},
        },
        "cfg": {},
        "rule": "one run = one generated scenario (world, 1-3 query objects with explicit sharing of variables / condition nodes / query objects, 30% rule queries) + one op list (start/step/drain/close/drop/dropcycle/gc/the) in one of five schedule shapes, all drawn from splitmix64(VERIF_SEED, property, run index). Non-trivial: two tasks that share a variable, an expression or the query object had overlapping lifetimes, or a query object was evaluated again after an earlier (complete or abandoned) evaluation. Distinct: hash of (scenario shape without constants, op list).",
        "components": REAL_EQL,
        "assumptions": [
            "the reference is the real engine evaluating the same query alone on a freshly built copy of the scenario in the same process; a defect that changes isolated and interleaved evaluation alike is invisible (C01/C02 territory)",
            "sampling, not enumeration: a clean batch is evidence, not proof",
            "bounds per run: <=3 queries, <=3 variables, <=5 items per domain, <=6 tasks, <=70 ops",
        ],
    },
    "C10": {
        "machine": "eval_sim",
        "engine": "Sim-E",
        "level": "exploration",
        "level_text": "Seeded search over query shapes, stream-backed domains and stop points k: the event monitor stamps every user-code event (attribute read, method/predicate/function call, container access, stream pull) with the consumer's phase, and the rules L1-L9 are checked on that history - no event during construction (variables, conditions, queries, rule trees, patterns; incl. literal operands), evaluate() call, idle/close/drop/gc; prefix property of the first k results; exact demand on the driving stream (single-variable queries, with result-count constraints, single-variable rule queries, patterns); the nested-loop first-pass rule (conjunctive multi-variable queries); bounded steps over an unbounded stream; exact demand on a lazily produced collection attribute under flatten; for_all pulls its universal stream exactly until every candidate is refuted. Exploration because the claim is about when user code runs relative to the consumer's actions, which only an owned schedule of next()/close() calls with logged streams can observe.",
        "design_ref": "DESIGN.md section 5, C10",
        "level_note": "Trusted: the instrumented world (every attribute of an item is a logging property, streams log every pull), the phase bracketing of the machine. Demand rules L5/L6 apply only to the query classes stated in DESIGN.md (union-, quantifier- and sub-query-free); other shapes are checked with L1-L4 only. Domains are one-shot generators, unbounded generators and sized re-iterable containers whose __len__/iteration are observed.",
        "technique": "deterministic simulation: consumer-step schedule with stop-after-k/close/drop/gc faults over logged one-shot and unbounded streams; event-order oracle plus prefix oracle against isolated evaluation",
        "tiers": {
            "quick": {"runs": 10000, "wall_s": 150, "triage_s": 60},
            "thorough": {"runs": 800000, "wall_s": 3000, "triage_s": 300},
        },
        "cfg": {},
        "rule": "one run = one generated scenario in one of seven modes (single-variable query over a stream; flatten over a lazily produced collection attribute; 2-3 variable conjunctive query over streams; general query incl. rule queries, sub-queries, quantifiers; single-variable query over an unbounded stream; pattern matching over logged dataclass Symbols; for_all over a bounded or unbounded universal stream) + a consumer schedule (start, k steps, optional drain, close/drop/leave, gc). Non-trivial: at least one stream-backed domain with >=2 elements (or unbounded) and at least one user-code event. Distinct: hash of (query shape without constants, op list, domain kinds).",
        "components": REAL_EQL,
        "assumptions": [
            "L4 compares with the real engine evaluating the same query on a freshly built scenario; semantic correctness of that evaluation is out of scope",
            "L5/L6 are checked only for union-free, quantifier-free, sub-query-free an(...) queries over stream domains; a join re-ordering optimisation cannot trip L6",
            "sampling, not enumeration",
        ],
    },
}


PROPERTIES["C14"] = {
    "machine": "lifecycle_sim",
    "engine": "Sim-L",
    "level": "exploration",
    "level_text": "Differential seeded search over lifetime histories: a run is (prefix, suffix); the prefix creates, relates, ties into cycles, drops, garbage-collects, sweeps and clears instances in orders that mirror or permute the suffix's so that rustworkx node indices and object ids are recycled; the suffix creates a few ontology instances and asserts relations (single-valued assignment, append, add, direct relation objects). Variant A runs the suffix alone on a fresh graph in a forked grandchild, variant B runs prefix then suffix; the recorded relations among suffix instances and every managed field of every suffix instance must be identical, no relation may attach to a foreign or dead instance, and no assertion between live instances may raise. In 40% of the runs (liveness mode) one op list with un-assignments keeps relating SURVIVORS after other instances died; the reference variant runs the same ops but secretly keeps every dropped instance alive, and the comparison is restricted to instances alive in reality. Exploration because the failing condition is a coincidence of lifetimes (which wrapper died when, which index was reused) that only an owned GC schedule produces.",
    "design_ref": "DESIGN.md section 5, C14",
    "level_note": "Trusted: the harness ontology (sim/worlds/oworld.py), CPython reference counting and gc.collect() as the only reclamation events (automatic cyclic GC disabled), rustworkx index recycling as it is. Inferred list fields are compared as multisets (their order is not part of this property). Probes read SymbolGraph private indexes but never decide.",
    "technique": "deterministic simulation: scheduled reference drops / gc / sweep / clear as faults, differential oracle (suffix alone vs after prefix) in forked processes, ddmin-minimised replay",
    "tiers": {
        "quick": {"runs": 5000, "wall_s": 150, "triage_s": 60},
        "thorough": {"runs": 500000, "wall_s": 3000, "triage_s": 300},
    },
    "cfg": {},
    "rule": "one run = (prefix op list, suffix op list) over the Org/Human/Boss ontology, prefix shape mirror/permuted/random. Non-trivial: the suffix records at least one relation and a suffix instance received a graph node index or an object id that a prefix instance had used. Distinct: hash of the two op lists without serial numbers.",
    "components": ["real: SymbolGraph, WrappedInstance, PropertyDescriptor, PropertyDescriptorRelation inference, monitored containers, class diagram, rustworkx PyDiGraph, CPython refcounting and gc", "stub: ontology classes Org/Human/Boss and their descriptors (sim/worlds/oworld.py)"],
    "assumptions": ["the suffix only relates suffix instances; survivors of the prefix are never related to them", "sampling, not enumeration", "bounds: <=5 suffix instances, <=6 suffix assertions, <=3 prefix rounds or <=25 random prefix ops"],
}

PROPERTIES["C13"] = {
    "machine": "lifecycle_sim",
    "engine": "Sim-L",
    "level": "exploration",
    "level_text": "Seeded search over histories of instance creation, reference drops, reference cycles, gc, sweeps, SymbolGraph clear/re-creation, variable declarations, queries (drained, partially consumed and held, partially consumed and dropped), re-evaluations and resumptions over a class hierarchy with single, multiple and diamond inheritance. The hierarchy includes a container-like symbol that is falsy while empty and classes defined in the middle of a history. After every query the result multiset is compared with a weak-reference census: every instance of the type (or a subclass) that the program still holds and that was created before the query started must be there, once (for an evaluation resumed later: everything that existed at its start and is still held); nothing of another type, no None, no duplicate; an enumeration ends although the consumer creates one instance per result taken; instances awaiting collection, pre-clear instances and changes made while an evaluation was open are explicit don't-cares.",
    "design_ref": "DESIGN.md section 5, C13",
    "level_note": "Trusted: the harness hierarchy and handle table, the census (weak references + creation sequence numbers). The oracle accepts both readings of clear() (instances of the old graph may or may not appear).",
    "technique": "deterministic simulation: scheduled reference drops / gc / sweep / graph clear against a weak-reference census oracle with explicit don't-cares; ddmin-minimised op list as replay",
    "tiers": {
        "quick": {"runs": 8000, "wall_s": 150, "triage_s": 60},
        "thorough": {"runs": 500000, "wall_s": 3000, "triage_s": 300},
    },
    "cfg": {},
    "rule": "one run = one op list (6-41 ops: create/drop/tie/gc/sweep/clear/declare/query/requery/resume) over T0<-T1<-T2, T0<-T3, T4(T1,T3), U0. Non-trivial: a query that is preceded by a drop, gc or clear, or that re-evaluates a query object / uses a variable declared earlier. Distinct: hash of the abstract history (op kinds with class names and query modes).",
    "components": ["real: let()/an()/entity() and the EQL engine, SymbolGraph (add_node, remove_dead_instances, get_instances_of_type, clear), Symbol.__new__ registration, CPython refcounting and gc", "stub: the Symbol class hierarchy (sim/worlds/oworld.py), the program's handle table"],
    "assumptions": ["sampling, not enumeration", "bounds: <=41 ops, <=12 live instances", "must-contain is restricted to instances the program holds in its handle table at the end of the query"],
}

PROPERTIES["C20"] = {
    "machine": "lifecycle_sim",
    "engine": "Sim-L",
    "level": "exploration",
    "level_text": "Seeded search over programs that repeat one cycle body 3-6 times - create hierarchy and ontology instances, relate them, tie them into reference cycles, replace instances before any sweep, evaluate queries with and without explicit domains and with comparisons, collection comparisons, cheap and self-declared expensive user predicates (drained, partially consumed, only built), hold or drop results and query objects - and end every cycle by dropping every program reference, collecting, sweeping and taking a census. Rules: every instance whose last program reference is gone is dead at the census (survivors are attributed at the end of the run by emptying the process-wide expression tables and collecting again: what dies only then is the known expression-registry finding, what still lives is a violation reported with its referrers); after a sweep the symbol graph, the instance index, the per-class lists and the relation index hold nothing of collected instances; the size vector of these structures is the same after every warmed-up cycle.",
    "design_ref": "DESIGN.md section 5, C20",
    "level_note": "The bookkeeping and growth rules read SymbolGraph's private containers because the statement is about krrood-held structures; a structure missing under its anchored name is counted as not measurable, never as a violation. Two open findings (F-C20-1, F-C20-2: immortal expressions) are matched on retained_via=expression-registry AND explicit_domain=true / structure=expression-registry only; half of the runs avoid explicit domains so that everything else is explored unshadowed.",
    "technique": "deterministic simulation: scheduled reference drops / gc / sweep with a weak-reference census oracle, in-run neutraliser (severing the expression tables) for attribution, size-vector invariant across repeated cycles",
    "tiers": {
        "quick": {"runs": 4000, "wall_s": 150, "triage_s": 60},
        "thorough": {"runs": 300000, "wall_s": 3000, "triage_s": 300},
    },
    "cfg": {},
    "rule": "one run = one cycle body (1-5 creations, 0-4 relations, optional tie, 0-3 queries, optional gc/sweep/drop) repeated 3-6 times, each cycle ending with dropall/gc/sweep/census. Non-trivial: at least one instance created and at least three censuses. Distinct: hash of (body op kinds with classes, domain kinds and consumption modes, cycle count, cycle end).",
    "components": ["real: SymbolGraph and its indexes, WrappedInstance weak references, descriptors and monitored containers, EQL engine incl. expression registry and RWXNode graph, CPython refcounting and gc", "stub: hierarchy and ontology classes, the program's handle table (sim/worlds/oworld.py)"],
    "assumptions": ["sampling, not enumeration", "retention is judged only after ALL program references (instances, query objects, results, iterators) are dropped", "the automatic cyclic GC is disabled; gc.collect() is an op"],
}

PROPERTIES["C15"] = {
    "machine": "onto_sim",
    "engine": "Sim-O",
    "level": "exploration",
    "level_text": "Facts (source, property, target) over 3-8 ontology instances - chains, diamonds and cycles of two transitive properties, a three-deep sub-property chain, an inverse pair, a role whose super-properties live on the role taker - are treated as messages: the scheduler delivers them in a seeded order, re-delivers some, routes each through a randomly chosen monotone write path (single-valued assignment, append, extend, insert, add, update, assignment of a container to a still-empty field) and interleaves gc, sweeps and creations of unrelated instances. After EVERY delivered message the graph relations and every managed field are compared with a reference closure (a fixpoint over the plain ontology table); in 40% of the runs the same facts are delivered in a second order on a fresh graph and the two final states are diffed.",
    "design_ref": "DESIGN.md section 5, C15",
    "level_note": "Only monotone writes are used (the code has no retraction, so 'derivable from the asserted facts' is defined for growing fact sets only). A single-valued field with several derivable targets may hold any of them. Container fields are compared as sets (multiplicity and order are C16's subject). The reference closure is the trusted model; the ontology table is the single source for it.",
    "technique": "deterministic simulation: seeded message reordering, duplication and write-path substitution with gc/sweep faults; reference-model oracle (closure fixpoint) evaluated after every delivery",
    "tiers": {
        "quick": {"runs": 12000, "wall_s": 150, "triage_s": 60},
        "thorough": {"runs": 800000, "wall_s": 3000, "triage_s": 300},
    },
    "cfg": {},
    "rule": "one run = population (3-8 instances), 1-9 facts, a delivery schedule with duplicates / gc / sweep / unrelated creations, optionally a second order. Non-trivial: the closure is strictly larger than the asserted facts. Distinct: hash of (canonical fact set, delivery order).",
    "components": COMP_O,
    "assumptions": ["well-typed facts only (the generator respects the declared ranges)", "sampling, not enumeration", "bounds: <=8 instances, <=9 facts"],
}

PROPERTIES["C16"] = {
    "machine": "onto_sim",
    "engine": "Sim-O",
    "level": "exploration",
    "level_text": "Seeded histories of write operations on one list-valued (Human.member_of) or one set-valued (Org.members) managed field, starting from contents given to the constructor: assignment of a new collection, assignment of the field to itself, += / |= (executed as real Python statements), append, extend, insert (incl. negative and beyond-the-end indexes), item and slice assignment, add, update - with list / set / tuple / generator / iterator arguments - assignment of the live field of another owner, elements retired (collected) and created in between, elements drawn with repetition and gc / sweep events in between. A plain Python list / set receives the same operations; after every operation the field read through its public attribute must equal the model (lists: same elements, order and multiplicity) and the graph must equal the reference closure of every (owner, property, element) for every element that has ever become part of the field, with the owner visible in each such element's inverse field.",
    "design_ref": "DESIGN.md section 5, C16",
    "level_note": "The fields under test are non-transitive, so inference never writes to them and their order is fully determined by the user's writes. Unmonitored mutators outside the listed operations (slice deletion, *=, sort, ...) are not exercised.",
    "technique": "deterministic simulation: seeded operation histories with gc/sweep faults against an executable reference model (Python list/set + closure fixpoint), checked after every step",
    "tiers": {
        "quick": {"runs": 12000, "wall_s": 150, "triage_s": 60},
        "thorough": {"runs": 800000, "wall_s": 3000, "triage_s": 300},
    },
    "cfg": {},
    "rule": "one run = kind (list|set), 1-5 candidate elements, initial contents, 1-10 operations. Non-trivial: at least two operations or one augmented/self/multi-element assignment. Distinct: hash of (kind, initial contents, operations).",
    "components": COMP_O,
    "assumptions": ["sampling, not enumeration", "bounds: <=5 distinct elements, <=10 operations"],
}

PROPERTIES["C19"] = {
    "machine": "json_sim",
    "engine": "Sim-J",
    "level": "fault_enumeration",
    "level_text": "A writer (to_json) stores documents as JSON text, a fault injector corrupts type tags at rest and a reader (from_json) loads them through a simulated import system (answers from sys.modules only, reproduces importlib's ValueError/TypeError/ModuleNotFoundError for degenerate names, can fail an existing module with ImportError). The quick tier enumerates the fault matrix exhaustively - every fault kind (key deleted; every JSON type and the empty string as value; missing/leading/trailing/double dots; unknown and failing modules; missing attribute, function, module, constant, TypeVar, typing alias, plain class, abstract serialiser, serialiser without deserialiser, the base class itself; every other real class; unregistered subclasses of registered types; every truncation and two single-character substitutions at every position of the real tag) at every tag position of a fixed corpus of six documents, every entry read twice in the same process - and then runs seeded histories of 1-4 reads over generated documents (repeated documents, repeated tags, names deleted or rebound in their module between two reads of a good tag). An independent resolver classifies each corrupted tag: unresolvable -> a JSONSerializationError subclass from the admissible set of that fault class and never a returned object; resolvable to class K -> an instance of exactly K or K's own parsing error.",
    "design_ref": "DESIGN.md section 5, C19",
    "level_note": "Trusted: the simulated import system and the resolver (both small, both in sim/machines/json_sim.py). A tag naming a serialiser class without _from_json (incl. SubclassJSONSerializer itself) is left open. Nothing is ever really imported: importlib.import_module is patched process-wide and a deny-all finder is the only entry of sys.meta_path during reads.",
    "technique": "deterministic simulation with enumerated fault injection: at-rest corruption of stored type tags and simulated import failures, classified by an independent reference resolver",
    "tiers": {
        "quick": {"runs": 40000, "wall_s": 150, "triage_s": 60},
        "thorough": {"runs": 600000, "wall_s": 3000, "triage_s": 300},
    },
    "cfg": {},
    "rule": "run indices below the matrix size enumerate (document, tag position, fault) exhaustively; higher indices draw a generated document (nesting depth <=3) and 1-3 faults at distinct tag positions from splitmix64(VERIF_SEED, property, index). Non-trivial: at least one fault was applied to an existing tag position. Distinct: hash of (document, faults, failing modules).",
    "components": ["real: to_json, from_json, SubclassJSONSerializer.from_json tag resolution, JSONSerializableTypeRegistry, the UUID serialiser, json.dumps/json.loads", "stub: serialiser classes Shape/Poly/Tri/Group, registered foreign type, non-class attributes (sim/worlds/jworld.py); simulated import system and deny-all finder; the document store (a JSON string)"],
    "assumptions": ["the matrix is exhaustive for the fixed corpus and the listed fault kinds, not for all strings", "multi-fault sequences use unresolvable faults only, any of their admissible errors is accepted"],
}

PROPERTIES["C17"] = {
    "machine": "diagram_sim",
    "engine": "Sim-D",
    "level": "exploration",
    "level_text": "A seeded generator writes the source of a family of 2-7 dataclasses (single and multiple inheritance, bases left out of the diagram, optionally Symbol classes, optionally split over two modules that do not import each other, optionally with a decoy module of same-named classes) and records the kind and target of every field - builtin, Optional builtin, enum, Optional enum, container of builtins, one-to-one, Optional one-to-one, one-to-many (List/Set), type-valued, underscore-private; written directly or as a string forward reference - so the expected nodes, inheritance edges and association edges are known by construction. The scheduler chooses two orders of the class list and a history of 5-30 read-only operations (every public accessor, asked twice), derived sub-diagrams with both flags (used as receivers of further operations) and renderings of the symbol graph's type diagram. After EVERY operation every diagram created so far must be unchanged since its creation, source diagrams must equal the ground truth, the public accessors and the cached per-class answers must agree with the graph, fields must classify as recorded, and the two orders must give the same diagram.",
    "design_ref": "DESIGN.md section 5, C17",
    "level_note": "The history / order clauses are what the simulator decides; 'each field is classified as its annotation says' is the invariant re-checked over generated families and is sampled, not enumerated. What a derived view CONTAINS is not part of the property and is only a probe (see DESIGN.md false-alarm log). ClassDiagram.visualize is unavailable with the installed rustworkx_utils and is not exercised.",
    "technique": "deterministic simulation: seeded registration order and read-only operation histories with derived views and rendering as faults; snapshot invariant + ground truth by construction checked after every step",
    "tiers": {
        "quick": {"runs": 3500, "wall_s": 150, "triage_s": 60},
        "thorough": {"runs": 300000, "wall_s": 3000, "triage_s": 300},
    },
    "cfg": {},
    "rule": "one run = one generated class family + class-list orders + 5-30 operations. Non-trivial: the family has at least one expected edge and at least one operation. Distinct: hash of (inheritance structure, field kinds and forward-reference flags, class order, operation kinds).",
    "components": ["real: ClassDiagram, WrappedClass, WrappedField, attribute introspectors, class_diagrams.utils, SymbolGraph.to_dot for Symbol families (pydot raw output), typing.get_type_hints, rustworkx", "stub: generated dataclass modules (exec'ed source), the decoy module"],
    "assumptions": ["the table of predicates per field kind (DESIGN.md C17) lists what must be true / false and leaves the rest open", "sampling, not enumeration"],
}

# <<NEW-PROPERTIES>>

# round-5 additions
PROPERTIES["C10"]["rule"] += " 30% of the abandoned non-rule queries without literal streams are evaluated again (demand must be exact beyond what the first evaluation pulled)."
PROPERTIES["C14"]["rule"] += " 5% of the prefixes are a long run (40-110) of operations that failed half-way."
PROPERTIES["C16"]["rule"] += " Arguments of extend / update / += may be iterables that raise after their last element (the caller carries on)."
PROPERTIES["C17"]["rule"] += " Op readd: add_node for a class the receiver already contains (a no-op)."
PROPERTIES["C20"]["rule"] += " A cycle may end without an explicit sweep, with the evaluation of a query over an explicit domain of numbers instead."

# round-4 additions to the workloads (DESIGN.md 8.5 / 8.7)
PROPERTIES["C03"]["rule"] += " 20% of the rule queries are evaluated once (k results or all) BEFORE their rules are attached to the query object; the isolated reference always builds the query completely first."
PROPERTIES["C14"]["rule"] += " In 35% of the prefix/suffix runs prefix operations FAIL half-way: the fault seam oworld.FAULT makes the k-th __hash__ call of a user object inside an assertion raise (sometimes the program retries), and constructors that assign a single-valued managed field do not complete; the suffix must still behave as on a fresh graph."
PROPERTIES["C14"]["technique"] = "deterministic simulation: scheduled reference drops / gc / sweep / clear and operations interrupted by failing user code (injected at the k-th __hash__ call) as faults, differential oracle (suffix alone vs after prefix) in forked processes, ddmin-minimised replay"
PROPERTIES["C15"]["rule"] += " The ontology also has a transitive property with inverse and super-property (Zone.part_of) and subclasses that declare the super-property field themselves (Officer(Clerk), Patron(Donor)); two or three facts about one field may be delivered by ONE write (container assignment, extend, update, +=, |=)."
PROPERTIES["C16"]["rule"] += " Operations include assigning a lazily evaluated view of the field itself (generator, filter, reversed, chain) and, as a last op, a write through a shallow copy of the owner that shares the container object, or a write to a new instance constructed with the collection that outlived its dead owner (only the relation of the instance written through is judged)."
PROPERTIES["C17"]["rule"] += " 20% of the base-less classes follow the Role pattern (Role[T] with a required field of type T, a HasRoleTaker edge)."
PROPERTIES["C20"]["rule"] += " Query conditions: none, comparison, user predicate (cheap / expensive), collection comparison, exists(...) over a second variable, an independent nested sub-query (the/an inside the/an)."
PROPERTIES["C10"]["rule"] += " One-shot streams in literal position come as generator, iterator object, map object or chain object."


ENGINES = {
    "Sim-D": "class-diagram history simulator: generated dataclass families with ground truth by construction; seeded class order, read-only operation histories, derived views and renderings; fork-per-run",
    "Sim-J": "JSON store simulator: writer -> stored JSON text -> at-rest tag corruption -> reader, behind a simulated import system; enumerated fault matrix plus seeded fault sequences; fork-per-run",
    "Sim-O": "ontology assertion simulator: facts are messages; the scheduler reorders, duplicates and routes them through write paths, with gc/sweep events; oracle = reference closure from a plain ontology table; fork-per-run",
    "Sim-L": "lifecycle simulator: cyclic GC disabled, reference drops / gc.collect / sweep / graph clear are scheduled ops on a harness-owned handle table, weak-reference census as ground truth; fork-per-run",
    "Sim-E": "evaluation simulator: the generators returned by evaluate() are the tasks; a seeded op list decides every next(), close(), reference drop and gc; fork-per-run from a pristine template process",
}

NOTES = (
    "All checks are run by sim/check.py (custom seeded simulator, one forked child per run, explicit op lists as replay files, "
    "ddmin minimisation, known findings in known_findings.json with witnesses under findings/). Exit 0 = held on everything explored, "
    "1 = VIOLATION line with a replay file under replays/, 3 = harness anomaly. Environment knobs: VERIF_SEED, VERIF_RUNS, VERIF_WALL, "
    "VERIF_WORKERS, KRROOD_SRC (source tree under test, default /repo/src). DESIGN.md explains per property what is simulated."
)

_PURE = "pure function of (program, data): no interleaving, event order, lifetime, stream or fault whose choice could change the answer, so a seeded scheduler has nothing to schedule and a fault injector nothing to inject (DESIGN.md section 6)"
_WIP = "claimed in DESIGN.md but its check is not built at this commit - listed here so that nothing is claimed without a working check"

NOT_APPLICABLE = {
    "C01": "EQL soundness/completeness: " + _PURE,
    "C02": "multiplicities in the conjunctive/else-if fragment: " + _PURE,
    "C04": "object -> DAO -> object round trip: two recursive pure conversions with per-call memo tables; " + _PURE,
    "C05": "persist/reload: a fixed two-step protocol on a fresh database; commit atomicity and crash recovery belong to SQLAlchemy/SQLite, the failures the property is about depend on graph shape and generated mapper arguments only; " + _PURE,
    "C06": "ORMatic code generation: text as a function of a class set; the realistic breakages are input-shaped; " + _PURE,
    "C07": "EQL-to-SQL equivalence: pure in (query, rows); " + _PURE,
    "C08": "rule-tree semantics: which branch fires is a function of (tree, data); re-evaluation and interleaving of rule queries is covered under C03; " + _PURE,
    "C09": "result quantifiers: exception or value as a function of (constraint, number of solutions); " + _PURE,
    "C11": "pattern matching vs explicit query: pure in (pattern, data); " + _PURE,
    "C12": "predicates/symbolic functions, concrete vs symbolic call: pure in (signature, call shape, binding); " + _PURE,
    "C18": "JSON round trip: pure in the value; " + _PURE,

}
