"""Per-property configuration of the registered checks."""

REAL_EQL = ["real: krrood EQL engine (symbolic.py, hashed_data.py, conclusion_selector.py, rule.py, conclusion.py, predicate.py, entity.py, utils.py), SymbolGraph singleton, rustworkx, CPython generators and GC",
            "stub: domain item classes, predicate and symbolic-function bodies, domain streams, inferred classes (sim/worlds/eworld.py)"]

PROPERTIES = {
    "C03": {
        "machine": "eval_sim",
        "level": "exploration",
        "tiers": {
            "quick": {"runs": 12000, "wall_s": 150, "triage_s": 60},
            "thorough": {"runs": 600000, "wall_s": 3000, "triage_s": 300},
        },
        "cfg": {},
        "rule": "one run = one generated scenario (world, 1-3 query objects with explicit sharing of variables / condition nodes / query objects, 30% rule queries) + one op list (start/step/drain/close/drop/dropcycle/gc/the) in one of five schedule shapes, all drawn from splitmix64(VERIF_SEED, property, run index). Non-trivial: two tasks that share a variable, an expression or the query object had overlapping lifetimes, or a query object was evaluated again after an earlier (complete or abandoned) evaluation. Distinct: hash of (scenario shape without constants, op list).",
        "components": REAL_EQL,
        "assumptions": [
            "the reference is the real engine evaluating the same query alone on a freshly built copy of the scenario in the same process; a defect that changes isolated and interleaved evaluation alike is invisible (C01/C02 territory)",
            "sampling, not enumeration: a clean batch is evidence, not proof",
            "bounds per run: <=3 queries, <=3 variables, <=5 items per domain, <=6 tasks, <=70 ops",
        ],
    },
}
