"""Developer probe: run N indices of a machine and print a failure summary (not a registered check)."""
import sys, os, json, collections, time
os.environ.setdefault("KRROOD_VERIF", "1")
sys.path.insert(0, os.environ.get("KRROOD_SRC", "/repo/src"))
sys.path.insert(0, "/verif")
import importlib
from sim import procs, kernel

def main():
    mname, prop, n = sys.argv[1], sys.argv[2], int(sys.argv[3])
    first = int(sys.argv[4]) if len(sys.argv) > 4 else 0
    machine = importlib.import_module("sim.machines." + mname)
    cfg = {"property": prop, "tier": "quick"}
    t0 = time.time()
    res = procs.run_batch(machine, prop, kernel.DEFAULT_SEED, cfg, n, 16, first_index=first)
    print("runs", res["runs"], "failed", res["failed_runs"], "timeouts", len(res["timeouts"]), "herr", len(res["harness_errors"]), "distinct", len(res["distinct"]), "wall", round(time.time()-t0,1))
    for k in sorted(res["counters"]): print("  ", k, res["counters"][k])
    for e in res["harness_errors"][:3]: print(e.get("error"))
    for e in res["worker_errors"][:3]: print(e)
    sig = collections.Counter()
    ex = {}
    for f in res["failures"]:
        for v in f["verdicts"]:
            fe = v["features"]
            key = (v["rule"],) + tuple(sorted((k, str(x)) for k, x in fe.items() if k not in ("task", "query", "domain_kinds")))
            sig[key] += 1
            ex.setdefault(key, (f["index"], v["detail"]))
    for k, c in sig.most_common(40):
        print(c, k, ex[k])
main()
